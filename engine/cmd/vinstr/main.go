// vinstr generates a `go build -overlay` for the current working tree of the
// repository under test. Nothing in the repository is modified.
//
// Rewrites (see DESIGN.md 2.1), all decided with type information:
//
//	map range   for k,v := range m          -> loop over vmap.Keys(site, m)
//	clock       time.Now/Since/Until/Sleep   -> vtime.*
//	file system os.ReadFile/WriteFile/...    -> vos.*
//	sync        import "sync"/"sync/atomic"  -> vsync / vatomic (same API)
//	host OS     runtime.GOOS                 -> vhost.GOOS()
//
// plus overlay-added accessor files inside repository packages and the shim
// packages themselves (mapped to <repo>/internal/zzvrt/*).
//
// usage: vinstr -repo /repo -verif /verif -out <scratch dir> [-nosync]
package main

import (
	"bytes"
	"encoding/json"
	"flag"
	"fmt"
	"go/ast"
	"go/format"
	"go/importer"
	"go/parser"
	"go/printer"
	"go/token"
	"go/types"
	"io"
	"os"
	"os/exec"
	"path/filepath"
	"reflect"
	"sort"
	"strconv"
	"strings"
)

const modPath = "github.com/Vedant9500/WTF"
const shimBase = modPath + "/internal/zzvrt/"

type listPkg struct {
	Dir        string
	ImportPath string
	Export     string
	GoFiles    []string
	Standard   bool
	Module     *struct{ Path string }
}

type report struct {
	GoStatements     []string       `json:"go_statements_rewritten,omitempty"`
	ChanOps          []string       `json:"channel_operations_rewritten,omitempty"`
	MapRangeSites    []string       `json:"map_range_sites"`
	SelectorRewrites map[string]int `json:"selector_rewrites"`
	SyncSwaps        []string       `json:"sync_import_swaps"`
	Uncontrolled     []string       `json:"uncontrolled_sites"`
	Accessors        []string       `json:"accessors"`
	Files            int            `json:"files_rewritten"`
}

var timeSel = map[string]bool{"Now": true, "Since": true, "Until": true, "Sleep": true}
var osSel = map[string]bool{"ReadFile": true, "WriteFile": true, "Stat": true, "MkdirAll": true,
	"Rename": true, "Remove": true, "CreateTemp": true, "OpenFile": true, "Open": true,
	"Create": true, "Chmod": true, "Truncate": true}

var osHandle = map[string]bool{"CreateTemp": true, "OpenFile": true, "Open": true, "Create": true}

// os selectors that touch the file system but are left alone (reported).
var osWatch = map[string]bool{"ReadDir": true, "Mkdir": true, "RemoveAll": true, "Lstat": true,
	"Link": true, "Symlink": true, "Chown": true, "MkdirTemp": true}
var timeWatch = map[string]bool{"After": true, "NewTimer": true, "NewTicker": true, "AfterFunc": true, "Tick": true}

func main() {
	repo := flag.String("repo", "/repo", "repository root (overlay keys are under this path)")
	srcFlag := flag.String("src", "", "tree to read the sources from (default: -repo); lets a scratch copy be checked through the same harness module")
	verif := flag.String("verif", "/verif", "verif root")
	out := flag.String("out", "", "scratch output directory")
	nosync := flag.Bool("nosync", false, "do not swap sync imports")
	flag.Parse()
	if *out == "" {
		fatal("need -out")
	}
	must(os.MkdirAll(*out, 0o755))
	src := *srcFlag
	if src == "" {
		src = *repo
	}

	pkgs := goList(src)
	exports := map[string]string{}
	for _, p := range pkgs {
		if p.Export != "" {
			exports[p.ImportPath] = p.Export
		}
	}
	fset := token.NewFileSet()
	imp := importer.ForCompiler(fset, "gc", func(path string) (io.ReadCloser, error) {
		f, ok := exports[path]
		if !ok {
			return nil, fmt.Errorf("no export data for %s", path)
		}
		return os.Open(f)
	})

	rep := &report{SelectorRewrites: map[string]int{}}
	replace := map[string]string{}

	for _, p := range pkgs {
		if p.Module == nil || p.Module.Path != modPath || p.Standard {
			continue
		}
		if strings.HasSuffix(p.ImportPath, "/internal/testutil") || strings.Contains(p.ImportPath, "/internal/zzvrt") {
			continue
		}
		rewritePackage(fset, imp, p, src, *repo, *out, *nosync, rep, replace)
	}
	if src != *repo {
		overlayTree(src, *repo, replace)
	}

	// shim packages -> <repo>/internal/zzvrt/<name>/
	shimRoot := filepath.Join(*verif, "engine", "vrt")
	ents, err := os.ReadDir(shimRoot)
	must(err)
	for _, e := range ents {
		if !e.IsDir() {
			continue
		}
		files, _ := filepath.Glob(filepath.Join(shimRoot, e.Name(), "*.go"))
		for _, f := range files {
			if strings.HasSuffix(f, "_test.go") {
				continue
			}
			replace[filepath.Join(*repo, "internal", "zzvrt", e.Name(), filepath.Base(f))] = f
		}
	}
	// accessor files -> inside repository packages
	accRoot := filepath.Join(*verif, "engine", "access")
	filepath.Walk(accRoot, func(path string, info os.FileInfo, err error) error {
		if err != nil || info.IsDir() || !strings.HasSuffix(path, ".go") {
			return nil
		}
		rel, _ := filepath.Rel(accRoot, path)
		if os.Getenv("VERIF_NO_ACCESSOR") != "" {
			return nil
		}
		replace[filepath.Join(*repo, rel)] = path
		rep.Accessors = append(rep.Accessors, rel)
		return nil
	})

	ov, _ := json.MarshalIndent(map[string]any{"Replace": replace}, "", " ")
	must(os.WriteFile(filepath.Join(*out, "overlay.json"), ov, 0o644))
	sort.Strings(rep.MapRangeSites)
	sort.Strings(rep.Uncontrolled)
	rj, _ := json.MarshalIndent(rep, "", " ")
	must(os.WriteFile(filepath.Join(*out, "vinstr_report.json"), rj, 0o644))
	fmt.Printf("vinstr: %d files rewritten, %d map-range sites, selectors %v, %d uncontrolled\n",
		rep.Files, len(rep.MapRangeSites), rep.SelectorRewrites, len(rep.Uncontrolled))
}

func goList(repo string) []listPkg {
	cmd := exec.Command("go", "list", "-export", "-deps", "-json=Dir,ImportPath,Export,GoFiles,Standard,Module", "./...")
	cmd.Dir = repo
	cmd.Env = append(os.Environ(), "GOFLAGS=-mod=mod", "GOPROXY=off")
	var stderr bytes.Buffer
	cmd.Stderr = &stderr
	outb, err := cmd.Output()
	if err != nil {
		fatal("go list failed: %v\n%s", err, stderr.String())
	}
	dec := json.NewDecoder(bytes.NewReader(outb))
	var pkgs []listPkg
	for dec.More() {
		var p listPkg
		must(dec.Decode(&p))
		pkgs = append(pkgs, p)
	}
	return pkgs
}

type fileCtx struct {
	fset    *token.FileSet
	info    *types.Info
	file    *ast.File
	relName string
	need    map[string]bool // shim imports needed
	rep     *report
	changed bool
	counter int
	keep    map[string]bool // original package names that may have lost all uses

	mentionsOSFile bool
	// osFileAsShim: the package passes its *os.File values only between its own declarations and the os
	// functions behind the seam, so the type os.File itself is rewritten to the shim's File
	osFileAsShim bool
}

// overlayTree maps every non-test Go file of src onto the corresponding path
// under repo (unless already rewritten) and deletes repo files absent in src.
func overlayTree(src, repo string, replace map[string]string) {
	inSrc := map[string]bool{}
	filepath.Walk(src, func(path string, info os.FileInfo, err error) error {
		if err != nil {
			return nil
		}
		if info.IsDir() {
			if info.Name() == ".git" {
				return filepath.SkipDir
			}
			return nil
		}
		rel, _ := filepath.Rel(src, path)
		if rel == "go.mod" || rel == "go.sum" {
			return nil
		}
		if !strings.HasSuffix(path, ".go") || strings.HasSuffix(path, "_test.go") {
			return nil
		}
		inSrc[rel] = true
		key := filepath.Join(repo, rel)
		if _, ok := replace[key]; !ok {
			replace[key] = path
		}
		return nil
	})
	filepath.Walk(repo, func(path string, info os.FileInfo, err error) error {
		if err != nil {
			return nil
		}
		if info.IsDir() {
			if info.Name() == ".git" {
				return filepath.SkipDir
			}
			return nil
		}
		if !strings.HasSuffix(path, ".go") || strings.HasSuffix(path, "_test.go") {
			return nil
		}
		rel, _ := filepath.Rel(repo, path)
		if !inSrc[rel] {
			replace[path] = ""
		}
		return nil
	})
}

func rewritePackage(fset *token.FileSet, imp types.Importer, p listPkg, src, repo, out string, nosync bool, rep *report, replace map[string]string) {
	var files []*ast.File
	var names []string
	for _, g := range p.GoFiles {
		full := filepath.Join(p.Dir, g)
		f, err := parser.ParseFile(fset, full, nil, parser.ParseComments)
		if err != nil {
			fatal("parse %s: %v", full, err)
		}
		files = append(files, f)
		names = append(names, full)
	}
	info := &types.Info{
		Types: map[ast.Expr]types.TypeAndValue{},
		Uses:  map[*ast.Ident]types.Object{},
		Defs:  map[*ast.Ident]types.Object{},
	}
	conf := types.Config{Importer: imp, Error: func(err error) {}}
	_, err := conf.Check(p.ImportPath, fset, files, info)
	if err != nil {
		// The tree may not type-check (then the build will fail and say so);
		// we still rewrite what we can resolve.
		fmt.Fprintf(os.Stderr, "vinstr: type errors in %s: %v\n", p.ImportPath, err)
	}
	asShim := osFileClosed(p.ImportPath, files, info)
	for i, f := range files {
		rel, _ := filepath.Rel(src, names[i])
		fc := &fileCtx{fset: fset, info: info, file: f, relName: rel, need: map[string]bool{}, rep: rep, keep: map[string]bool{}, osFileAsShim: asShim}
		// does this file name the type os.File explicitly? (then a wrapped handle would not type-check)
		ast.Inspect(f, func(n ast.Node) bool {
			if sel, ok := n.(*ast.SelectorExpr); ok && sel.Sel.Name == "File" {
				if id, ok := sel.X.(*ast.Ident); ok && fc.pkgOf(id) == "os" {
					if fc.osFileAsShim {
						// the type itself becomes the shim's File (see osFileClosed)
						fc.keep[id.Name] = true
						id.Name = "zzvos"
						fc.need["vos"] = true
						fc.changed = true
						fc.rep.SelectorRewrites["os.File (type)"]++
					} else {
						fc.mentionsOSFile = true
					}
				}
			}
			return true
		})
		fc.rewriteSelectors(p.ImportPath)
		fc.rewriteMapRanges()
		if !nosync {
			fc.swapSync()
			fc.rewriteGoStmts()
			fc.rewriteChans()
		}
		if !fc.changed {
			continue
		}
		fc.addImports()
		var buf bytes.Buffer
		cfg := printer.Config{Mode: printer.UseSpaces | printer.TabIndent, Tabwidth: 8}
		if err := cfg.Fprint(&buf, fset, f); err != nil {
			fatal("print %s: %v", rel, err)
		}
		src := buf.Bytes()
		if fm, err := format.Source(src); err == nil {
			src = fm
		}
		dst := filepath.Join(out, "src", rel)
		must(os.MkdirAll(filepath.Dir(dst), 0o755))
		must(os.WriteFile(dst, src, 0o644))
		replace[filepath.Join(repo, rel)] = dst
		rep.Files++
	}
}

// mentionsOSFileType reports whether t is, or is built from, the named type os.File.
func mentionsOSFileType(t types.Type, depth int) bool {
	if t == nil || depth > 6 {
		return false
	}
	switch x := t.(type) {
	case *types.Named:
		o := x.Obj()
		return o != nil && o.Pkg() != nil && o.Pkg().Path() == "os" && o.Name() == "File"
	case *types.Pointer:
		return mentionsOSFileType(x.Elem(), depth+1)
	case *types.Slice:
		return mentionsOSFileType(x.Elem(), depth+1)
	case *types.Array:
		return mentionsOSFileType(x.Elem(), depth+1)
	case *types.Map:
		return mentionsOSFileType(x.Key(), depth+1) || mentionsOSFileType(x.Elem(), depth+1)
	case *types.Chan:
		return mentionsOSFileType(x.Elem(), depth+1)
	case *types.Signature:
		for i := 0; i < x.Params().Len(); i++ {
			if mentionsOSFileType(x.Params().At(i).Type(), depth+1) {
				return true
			}
		}
		for i := 0; i < x.Results().Len(); i++ {
			if mentionsOSFileType(x.Results().At(i).Type(), depth+1) {
				return true
			}
		}
	case *types.Tuple:
		for i := 0; i < x.Len(); i++ {
			if mentionsOSFileType(x.At(i).Type(), depth+1) {
				return true
			}
		}
	}
	return false
}

// osFileClosed decides whether the type os.File can be replaced by the shim's File throughout one package:
// every expression whose type involves os.File must be (a) a call of one of the os functions behind the seam,
// (b) a name / field / call of something declared in this very package (whose declared type is rewritten with
// it), or (c) a plain *os.File-typed operand of those. Anything else (os.Stdout, os.NewFile, a function of
// another package that takes or returns *os.File, a slice of files handed elsewhere) keeps the old behaviour:
// files naming os.File are left on the real handle functions and listed as uncontrolled.
func osFileClosed(importPath string, files []*ast.File, info *types.Info) bool {
	mentioned := false
	ok := true
	local := func(o types.Object) bool { return o != nil && o.Pkg() != nil && o.Pkg().Path() == importPath }
	for _, f := range files {
		ast.Inspect(f, func(n ast.Node) bool {
			e, isExpr := n.(ast.Expr)
			if !isExpr || !ok {
				return ok
			}
			tv, has := info.Types[e]
			if !has || !mentionsOSFileType(tv.Type, 0) {
				return true
			}
			if tv.IsType() {
				mentioned = true
				return true
			}
			switch x := e.(type) {
			case *ast.Ident:
				if o := info.Uses[x]; o != nil && !local(o) {
					ok = false
				}
			case *ast.SelectorExpr:
				if id, isID := x.X.(*ast.Ident); isID {
					if pn, isPkg := info.Uses[id].(*types.PkgName); isPkg {
						// a qualified identifier: only the seam functions themselves are fine
						if !(pn.Imported().Path() == "os" && osHandle[x.Sel.Name]) {
							ok = false
						}
						return true
					}
				}
				if o := info.Uses[x.Sel]; o != nil && !local(o) {
					ok = false // a field or method of a foreign type that carries a file
				}
			case *ast.CallExpr:
				// the callee is judged as an expression of its own (its signature mentions os.File)
			case *ast.ParenExpr, *ast.StarExpr, *ast.UnaryExpr, *ast.IndexExpr, *ast.TypeAssertExpr, *ast.FuncLit, *ast.CompositeLit, *ast.SliceExpr, *ast.KeyValueExpr:
			default:
				ok = false
			}
			return ok
		})
	}
	return mentioned && ok
}

func (fc *fileCtx) pkgOf(id *ast.Ident) string {
	if obj, ok := fc.info.Uses[id].(*types.PkgName); ok {
		return obj.Imported().Path()
	}
	return ""
}

func (fc *fileCtx) pos(n ast.Node) string {
	p := fc.fset.Position(n.Pos())
	return fmt.Sprintf("%s:%d", fc.relName, p.Line)
}

func (fc *fileCtx) rewriteSelectors(importPath string) {
	ast.Inspect(fc.file, func(n ast.Node) bool {
		sel, ok := n.(*ast.SelectorExpr)
		if !ok {
			return true
		}
		id, ok := sel.X.(*ast.Ident)
		if !ok {
			return true
		}
		switch fc.pkgOf(id) {
		case "time":
			if timeSel[sel.Sel.Name] {
				fc.keep[id.Name] = true
				id.Name = "zzvtime"
				fc.need["vtime"] = true
				fc.changed = true
				fc.rep.SelectorRewrites["time."+sel.Sel.Name]++
			} else if timeWatch[sel.Sel.Name] {
				fc.rep.Uncontrolled = append(fc.rep.Uncontrolled, fc.pos(sel)+" time."+sel.Sel.Name)
			}
		case "os":
			if osSel[sel.Sel.Name] && osHandle[sel.Sel.Name] && fc.mentionsOSFile {
				// this file handles *os.File values explicitly: a wrapped handle would not type-check
				fc.rep.Uncontrolled = append(fc.rep.Uncontrolled, fc.pos(sel)+" os."+sel.Sel.Name+" (file uses *os.File)")
			} else if osSel[sel.Sel.Name] {
				fc.keep[id.Name] = true
				id.Name = "zzvos"
				fc.need["vos"] = true
				fc.changed = true
				fc.rep.SelectorRewrites["os."+sel.Sel.Name]++
			} else if osWatch[sel.Sel.Name] {
				fc.rep.Uncontrolled = append(fc.rep.Uncontrolled, fc.pos(sel)+" os."+sel.Sel.Name)
			}
		case "runtime":
			if sel.Sel.Name == "GOOS" && strings.HasSuffix(importPath, "/internal/database") {
				fc.keep[id.Name] = true
				id.Name = "zzvhost"
				sel.Sel.Name = "GOOS()"
				fc.need["vhost"] = true
				fc.changed = true
				fc.rep.SelectorRewrites["runtime.GOOS"]++
			}
		}
		return true
	})
}

func simpleExpr(e ast.Expr) bool {
	switch x := e.(type) {
	case *ast.Ident:
		return true
	case *ast.SelectorExpr:
		return simpleExpr(x.X)
	case *ast.ParenExpr:
		return simpleExpr(x.X)
	case *ast.StarExpr:
		return simpleExpr(x.X)
	}
	return false
}

func (fc *fileCtx) rewriteMapRanges() {
	ast.Inspect(fc.file, func(n ast.Node) bool {
		rs, ok := n.(*ast.RangeStmt)
		if !ok {
			return true
		}
		tv, ok := fc.info.Types[rs.X]
		if !ok || tv.Type == nil {
			return true
		}
		if _, isMap := tv.Type.Underlying().(*types.Map); !isMap {
			return true
		}
		site := fc.pos(rs)
		fc.rep.MapRangeSites = append(fc.rep.MapRangeSites, site)
		fc.need["vmap"] = true
		fc.changed = true
		fc.counter++
		kv := fmt.Sprintf("zzk%d", fc.counter)
		vv := fmt.Sprintf("zzv%d", fc.counter)
		okv := fmt.Sprintf("zzok%d", fc.counter)
		tok := rs.Tok
		if tok == token.ILLEGAL {
			tok = token.DEFINE
		}
		isBlank := func(e ast.Expr) bool {
			if e == nil {
				return true
			}
			id, ok := e.(*ast.Ident)
			return ok && id.Name == "_"
		}
		siteLit := &ast.BasicLit{Kind: token.STRING, Value: strconv.Quote(site)}
		var pre []ast.Stmt
		if simpleExpr(rs.X) {
			// for _, zzk := range vmap.Keys(site, m) { zzv, zzok := m[zzk]; if !zzok {continue}; k, v := zzk, zzv; body }
			call := &ast.CallExpr{Fun: &ast.SelectorExpr{X: ast.NewIdent("zzvmap"), Sel: ast.NewIdent("Keys")},
				Args: []ast.Expr{siteLit, rs.X}}
			valueID := ast.Expr(ast.NewIdent(vv))
			if isBlank(rs.Value) {
				valueID = ast.NewIdent("_")
			}
			pre = append(pre,
				&ast.AssignStmt{Lhs: []ast.Expr{valueID, ast.NewIdent(okv)}, Tok: token.DEFINE,
					Rhs: []ast.Expr{&ast.IndexExpr{X: rs.X, Index: ast.NewIdent(kv)}}},
				&ast.IfStmt{Cond: &ast.UnaryExpr{Op: token.NOT, X: ast.NewIdent(okv)},
					Body: &ast.BlockStmt{List: []ast.Stmt{&ast.BranchStmt{Tok: token.CONTINUE}}}},
			)
			if !isBlank(rs.Key) {
				pre = append(pre, &ast.AssignStmt{Lhs: []ast.Expr{rs.Key}, Tok: tok, Rhs: []ast.Expr{ast.NewIdent(kv)}})
				if tok == token.DEFINE {
					pre = append(pre, &ast.AssignStmt{Lhs: []ast.Expr{ast.NewIdent("_")}, Tok: token.ASSIGN, Rhs: []ast.Expr{rs.Key}})
				}
			}
			if !isBlank(rs.Value) {
				pre = append(pre, &ast.AssignStmt{Lhs: []ast.Expr{rs.Value}, Tok: tok, Rhs: []ast.Expr{ast.NewIdent(vv)}})
				if tok == token.DEFINE {
					pre = append(pre, &ast.AssignStmt{Lhs: []ast.Expr{ast.NewIdent("_")}, Tok: token.ASSIGN, Rhs: []ast.Expr{rs.Value}})
				}
			}
			rs.X = call
		} else {
			// for _, zzk := range vmap.Pairs(site, expr) { k, v := zzk.K, zzk.V; body }
			call := &ast.CallExpr{Fun: &ast.SelectorExpr{X: ast.NewIdent("zzvmap"), Sel: ast.NewIdent("Pairs")},
				Args: []ast.Expr{siteLit, rs.X}}
			if !isBlank(rs.Key) {
				pre = append(pre, &ast.AssignStmt{Lhs: []ast.Expr{rs.Key}, Tok: tok,
					Rhs: []ast.Expr{&ast.SelectorExpr{X: ast.NewIdent(kv), Sel: ast.NewIdent("K")}}})
				if tok == token.DEFINE {
					pre = append(pre, &ast.AssignStmt{Lhs: []ast.Expr{ast.NewIdent("_")}, Tok: token.ASSIGN, Rhs: []ast.Expr{rs.Key}})
				}
			}
			if !isBlank(rs.Value) {
				pre = append(pre, &ast.AssignStmt{Lhs: []ast.Expr{rs.Value}, Tok: tok,
					Rhs: []ast.Expr{&ast.SelectorExpr{X: ast.NewIdent(kv), Sel: ast.NewIdent("V")}}})
				if tok == token.DEFINE {
					pre = append(pre, &ast.AssignStmt{Lhs: []ast.Expr{ast.NewIdent("_")}, Tok: token.ASSIGN, Rhs: []ast.Expr{rs.Value}})
				}
			}
			if len(pre) == 0 {
				pre = append(pre, &ast.AssignStmt{Lhs: []ast.Expr{ast.NewIdent("_")}, Tok: token.ASSIGN, Rhs: []ast.Expr{ast.NewIdent(kv)}})
			}
			rs.X = call
		}
		rs.Key = ast.NewIdent("_")
		rs.Value = ast.NewIdent(kv)
		rs.Tok = token.DEFINE
		rs.Body.List = append(pre, rs.Body.List...)
		return true
	})
}

// rewriteGoStmts turns `go f(a, b)` into a call of vsched.Go, so that goroutines started by the
// code under test become threads of the controlled scheduler (and plain goroutines otherwise).
// Function value and arguments are evaluated at the go statement, as the language specifies.
func (fc *fileCtx) rewriteGoStmts() {
	n := 0
	conv := func(list []ast.Stmt) {
		for i, st := range list {
			gs, ok := st.(*ast.GoStmt)
			if !ok {
				continue
			}
			n++
			fc.rep.GoStatements = append(fc.rep.GoStatements, fc.pos(gs))
			fc.need["vsched"] = true
			fc.changed = true
			goSel := &ast.SelectorExpr{X: ast.NewIdent("zzvsched"), Sel: ast.NewIdent("Go")}
			call := gs.Call
			if fl, isLit := call.Fun.(*ast.FuncLit); isLit && len(call.Args) == 0 {
				list[i] = &ast.ExprStmt{X: &ast.CallExpr{Fun: goSel, Args: []ast.Expr{fl}}}
				continue
			}
			var pre []ast.Stmt
			fname := fmt.Sprintf("zzgf%d", n)
			pre = append(pre, &ast.AssignStmt{Lhs: []ast.Expr{ast.NewIdent(fname)}, Tok: token.DEFINE, Rhs: []ast.Expr{call.Fun}})
			var args []ast.Expr
			for k, a := range call.Args {
				an := fmt.Sprintf("zzga%d_%d", n, k)
				pre = append(pre, &ast.AssignStmt{Lhs: []ast.Expr{ast.NewIdent(an)}, Tok: token.DEFINE, Rhs: []ast.Expr{a}})
				args = append(args, ast.NewIdent(an))
			}
			inner := &ast.CallExpr{Fun: ast.NewIdent(fname), Args: args, Ellipsis: call.Ellipsis}
			lit := &ast.FuncLit{Type: &ast.FuncType{Params: &ast.FieldList{}}, Body: &ast.BlockStmt{List: []ast.Stmt{&ast.ExprStmt{X: inner}}}}
			pre = append(pre, &ast.ExprStmt{X: &ast.CallExpr{Fun: goSel, Args: []ast.Expr{lit}}})
			list[i] = &ast.BlockStmt{List: pre}
		}
	}
	ast.Inspect(fc.file, func(node ast.Node) bool {
		switch x := node.(type) {
		case *ast.BlockStmt:
			conv(x.List)
		case *ast.CaseClause:
			conv(x.Body)
		case *ast.CommClause:
			conv(x.Body)
		}
		return true
	})
}

// rewriteChans turns the channel operations of the code under test (send, receive, close, range
// over a channel, select) into calls of the vchan shim, so that they are scheduling and blocking
// points of the controlled scheduler (and the real operations otherwise).
func (fc *fileCtx) rewriteChans() {
	isChan := func(e ast.Expr) bool {
		tv, ok := fc.info.Types[e]
		if !ok || tv.Type == nil {
			return false
		}
		_, c := tv.Type.Underlying().(*types.Chan)
		return c
	}
	shim := func(name string) ast.Expr {
		fc.need["vchan"] = true
		fc.changed = true
		return &ast.SelectorExpr{X: ast.NewIdent("zzvchan"), Sel: ast.NewIdent(name)}
	}
	call := func(fun ast.Expr, args ...ast.Expr) *ast.CallExpr { return &ast.CallExpr{Fun: fun, Args: args} }
	method := func(x ast.Expr, name string, args ...ast.Expr) *ast.CallExpr {
		return call(&ast.SelectorExpr{X: x, Sel: ast.NewIdent(name)}, args...)
	}
	unparen := func(e ast.Expr) ast.Expr {
		for {
			p, ok := e.(*ast.ParenExpr)
			if !ok {
				return e
			}
			e = p.X
		}
	}
	define := func(name string, rhs ast.Expr) ast.Stmt {
		return &ast.AssignStmt{Lhs: []ast.Expr{ast.NewIdent(name)}, Tok: token.DEFINE, Rhs: []ast.Expr{rhs}}
	}
	use := func(name string) ast.Stmt {
		return &ast.AssignStmt{Lhs: []ast.Expr{ast.NewIdent("_")}, Tok: token.ASSIGN, Rhs: []ast.Expr{ast.NewIdent(name)}}
	}
	labeled := map[ast.Stmt]bool{}
	skip := map[ast.Node]bool{}
	ast.Inspect(fc.file, func(n ast.Node) bool {
		switch x := n.(type) {
		case *ast.LabeledStmt:
			labeled[x.Stmt] = true
		case *ast.CommClause:
			switch c := x.Comm.(type) {
			case *ast.SendStmt:
				skip[c] = true
			case *ast.ExprStmt:
				skip[unparen(c.X)] = true
			case *ast.AssignStmt:
				if len(c.Rhs) == 1 {
					skip[unparen(c.Rhs[0])] = true
				}
			}
		}
		return true
	})
	note := func(n ast.Node, what string) {
		fc.rep.ChanOps = append(fc.rep.ChanOps, fc.pos(n)+" "+what)
	}
	doExpr := func(parent ast.Node, e ast.Expr) ast.Expr {
		if skip[e] {
			return e
		}
		switch x := e.(type) {
		case *ast.UnaryExpr:
			if x.Op != token.ARROW {
				return e
			}
			name := "Recv"
			switch p := parent.(type) {
			case *ast.AssignStmt:
				if len(p.Lhs) == 2 && len(p.Rhs) == 1 {
					name = "Recv2"
				}
			case *ast.ValueSpec:
				if len(p.Names) == 2 && len(p.Values) == 1 {
					name = "Recv2"
				}
			}
			note(x, "receive")
			return call(shim(name), x.X)
		case *ast.CallExpr:
			id, ok := x.Fun.(*ast.Ident)
			if !ok || id.Name != "close" || len(x.Args) != 1 {
				return e
			}
			if _, isBuiltin := fc.info.Uses[id].(*types.Builtin); !isBuiltin {
				return e
			}
			note(x, "close")
			x.Fun = shim("Close")
		}
		return e
	}
	doStmt := func(st ast.Stmt) ast.Stmt {
		if skip[st] {
			return st
		}
		switch x := st.(type) {
		case *ast.SendStmt:
			note(x, "send")
			return &ast.ExprStmt{X: method(call(shim("SendTo"), x.Chan), "Do", x.Value)}
		case *ast.RangeStmt:
			if !isChan(x.X) {
				return st
			}
			hoist := !simpleExpr(x.X)
			if hoist && labeled[x] {
				fc.rep.Uncontrolled = append(fc.rep.Uncontrolled, fc.pos(x)+" labeled range over a channel expression")
				return st
			}
			fc.counter++
			vn, okn, chn := fmt.Sprintf("zzcv%d", fc.counter), fmt.Sprintf("zzcok%d", fc.counter), fmt.Sprintf("zzch%d", fc.counter)
			chExpr := x.X
			if hoist {
				chExpr = ast.NewIdent(chn)
			}
			lhs0 := ast.Expr(ast.NewIdent("_"))
			hasKey := x.Key != nil
			if id, ok := x.Key.(*ast.Ident); ok && id.Name == "_" {
				hasKey = false
			}
			if hasKey {
				lhs0 = ast.NewIdent(vn)
			}
			pre := []ast.Stmt{
				&ast.AssignStmt{Lhs: []ast.Expr{lhs0, ast.NewIdent(okn)}, Tok: token.DEFINE, Rhs: []ast.Expr{call(shim("Recv2"), chExpr)}},
				&ast.IfStmt{Cond: &ast.UnaryExpr{Op: token.NOT, X: ast.NewIdent(okn)}, Body: &ast.BlockStmt{List: []ast.Stmt{&ast.BranchStmt{Tok: token.BREAK}}}},
			}
			if hasKey {
				pre = append(pre, &ast.AssignStmt{Lhs: []ast.Expr{x.Key}, Tok: x.Tok, Rhs: []ast.Expr{ast.NewIdent(vn)}})
			}
			loop := &ast.ForStmt{Body: &ast.BlockStmt{List: append(pre, x.Body.List...)}}
			note(x, "range")
			if hoist {
				return &ast.BlockStmt{List: []ast.Stmt{define(chn, x.X), loop}}
			}
			return loop
		case *ast.SelectStmt:
			if labeled[x] {
				fc.rep.Uncontrolled = append(fc.rep.Uncontrolled, fc.pos(x)+" labeled select")
				return st
			}
			fc.counter++
			sn := fmt.Sprintf("zzsel%d", fc.counter)
			dflt := "false"
			for _, cl := range x.Body.List {
				if cl.(*ast.CommClause).Comm == nil {
					dflt = "true"
				}
			}
			stmts := []ast.Stmt{define(sn, call(shim("NewSelect"), ast.NewIdent(dflt)))}
			var clauses []ast.Stmt
			var defaultClause *ast.CaseClause
			k := 0
			for _, cl := range x.Body.List {
				cc := cl.(*ast.CommClause)
				if cc.Comm == nil {
					defaultClause = &ast.CaseClause{Body: cc.Body}
					continue
				}
				cn := fmt.Sprintf("%s_%d", sn, k)
				var prefix []ast.Stmt
				switch cm := cc.Comm.(type) {
				case *ast.SendStmt:
					stmts = append(stmts, define(cn, method(call(shim("AddSend"), ast.NewIdent(sn), cm.Chan), "Val", cm.Value)), use(cn))
				case *ast.ExprStmt:
					u := unparen(cm.X).(*ast.UnaryExpr)
					stmts = append(stmts, define(cn, call(shim("AddRecv"), ast.NewIdent(sn), u.X)), use(cn))
				case *ast.AssignStmt:
					u := unparen(cm.Rhs[0]).(*ast.UnaryExpr)
					stmts = append(stmts, define(cn, call(shim("AddRecv"), ast.NewIdent(sn), u.X)), use(cn))
					rhs := []ast.Expr{&ast.SelectorExpr{X: ast.NewIdent(cn), Sel: ast.NewIdent("V")}}
					if len(cm.Lhs) == 2 {
						rhs = append(rhs, &ast.SelectorExpr{X: ast.NewIdent(cn), Sel: ast.NewIdent("Ok")})
					}
					prefix = append(prefix, &ast.AssignStmt{Lhs: cm.Lhs, Tok: cm.Tok, Rhs: rhs})
				}
				clauses = append(clauses, &ast.CaseClause{
					List: []ast.Expr{&ast.BasicLit{Kind: token.INT, Value: strconv.Itoa(k)}},
					Body: append(prefix, cc.Body...)})
				k++
			}
			if defaultClause != nil {
				clauses = append(clauses, defaultClause)
			} else if len(clauses) > 0 {
				// Wait never answers -1 here: the last case becomes the switch's default so that a
				// select that ends a function still counts as a terminating statement
				clauses[len(clauses)-1].(*ast.CaseClause).List = nil
			}
			stmts = append(stmts, &ast.SwitchStmt{Tag: method(ast.NewIdent(sn), "Wait"), Body: &ast.BlockStmt{List: clauses}})
			note(x, "select")
			fc.need["vchan"] = true
			fc.changed = true
			return &ast.BlockStmt{List: stmts}
		}
		return st
	}
	exprT := reflect.TypeOf((*ast.Expr)(nil)).Elem()
	stmtT := reflect.TypeOf((*ast.Stmt)(nil)).Elem()
	exprsT := reflect.TypeOf([]ast.Expr(nil))
	stmtsT := reflect.TypeOf([]ast.Stmt(nil))
	// pre-order: the fields of a node are replaced before ast.Inspect descends into them, so what a
	// replacement is built from (clause bodies, operands) is visited - and rewritten - afterwards
	ast.Inspect(fc.file, func(n ast.Node) bool {
		if n == nil {
			return true
		}
		if cc, ok := n.(*ast.CommClause); ok && cc.Comm != nil {
			_ = cc // a comm clause still here belongs to a labeled select: its comm is in skip
		}
		v := reflect.ValueOf(n)
		if v.Kind() != reflect.Ptr || v.IsNil() || v.Elem().Kind() != reflect.Struct {
			return true
		}
		v = v.Elem()
		for i := 0; i < v.NumField(); i++ {
			f := v.Field(i)
			if !f.CanSet() {
				continue
			}
			switch f.Type() {
			case exprT:
				if e, ok := f.Interface().(ast.Expr); ok && e != nil {
					if r := doExpr(n, e); r != e {
						f.Set(reflect.ValueOf(r))
					}
				}
			case stmtT:
				if s, ok := f.Interface().(ast.Stmt); ok && s != nil {
					if r := doStmt(s); r != s {
						f.Set(reflect.ValueOf(r))
					}
				}
			case exprsT:
				l := f.Interface().([]ast.Expr)
				for j, e := range l {
					if e != nil {
						l[j] = doExpr(n, e)
					}
				}
			case stmtsT:
				l := f.Interface().([]ast.Stmt)
				for j, s := range l {
					if s != nil {
						l[j] = doStmt(s)
					}
				}
			}
		}
		return true
	})
}

func (fc *fileCtx) swapSync() {
	for _, is := range fc.file.Imports {
		path, _ := strconv.Unquote(is.Path.Value)
		switch path {
		case "sync":
			is.Path.Value = strconv.Quote(shimBase + "vsync")
			if is.Name == nil {
				is.Name = ast.NewIdent("sync")
			}
			fc.changed = true
			fc.rep.SyncSwaps = append(fc.rep.SyncSwaps, fc.relName+" sync")
		case "sync/atomic":
			is.Path.Value = strconv.Quote(shimBase + "vatomic")
			if is.Name == nil {
				is.Name = ast.NewIdent("atomic")
			}
			fc.changed = true
			fc.rep.SyncSwaps = append(fc.rep.SyncSwaps, fc.relName+" sync/atomic")
		}
	}
}

func (fc *fileCtx) addImports() {
	if len(fc.need) == 0 && len(fc.keep) == 0 {
		return
	}
	var specs []ast.Spec
	var names []string
	for n := range fc.need {
		names = append(names, n)
	}
	sort.Strings(names)
	for _, n := range names {
		specs = append(specs, &ast.ImportSpec{Name: ast.NewIdent("zz" + n),
			Path: &ast.BasicLit{Kind: token.STRING, Value: strconv.Quote(shimBase + n)}})
	}
	if len(specs) > 0 {
		gd := &ast.GenDecl{Tok: token.IMPORT, Lparen: 1, Specs: specs}
		// insert after the last import decl
		idx := 0
		for i, d := range fc.file.Decls {
			if g, ok := d.(*ast.GenDecl); ok && g.Tok == token.IMPORT {
				idx = i + 1
			}
		}
		decls := append([]ast.Decl{}, fc.file.Decls[:idx]...)
		decls = append(decls, gd)
		decls = append(decls, fc.file.Decls[idx:]...)
		fc.file.Decls = decls
	}
	// keep the original imports "used" even when every selector was rewritten
	known := map[string]string{"time": "Nanosecond", "os": "Args", "runtime": "Compiler"}
	var keepNames []string
	for n := range fc.keep {
		keepNames = append(keepNames, n)
	}
	sort.Strings(keepNames)
	for _, local := range keepNames {
		// find the import path for this local name
		for _, is := range fc.file.Imports {
			path, _ := strconv.Unquote(is.Path.Value)
			ln := filepath.Base(path)
			if is.Name != nil {
				ln = is.Name.Name
			}
			if ln != local {
				continue
			}
			if sym, ok := known[path]; ok {
				fc.file.Decls = append(fc.file.Decls, &ast.GenDecl{Tok: token.VAR, Specs: []ast.Spec{
					&ast.ValueSpec{Names: []*ast.Ident{ast.NewIdent("_")},
						Values: []ast.Expr{&ast.SelectorExpr{X: ast.NewIdent(local), Sel: ast.NewIdent(sym)}}}}})
			}
		}
	}
}

func must(err error) {
	if err != nil {
		fatal("%v", err)
	}
}

func fatal(f string, a ...any) {
	fmt.Fprintf(os.Stderr, "vinstr: "+f+"\n", a...)
	os.Exit(2)
}

// vcheck is the harness binary: one sub-check per property (see ../../checks).
package main

import (
	_ "github.com/Vedant9500/WTF/zzverif/checks"
	"github.com/Vedant9500/WTF/zzverif/lib"
)

func main() { lib.Main() }

// Package lib is the shared runtime of the model-checking harness: worker
// sharding, evidence, replay artefacts, known findings.
package lib

import (
	"crypto/sha256"
	"encoding/hex"
	"encoding/json"
	"fmt"
	"io"
	"log"
	"os"
	"os/exec"
	"path/filepath"
	"sort"
	"strconv"
	"strings"
	"time"
)

// Violation is one counterexample.
type Violation struct {
	Property string `json:"property"`
	// Key classifies the failing input / call site / history so that known
	// findings can be matched narrowly (never a whole property).
	Key      string `json:"key"`
	What     string `json:"what"`
	Case     any    `json:"case"`
	Observed any    `json:"observed,omitempty"`
	Expected any    `json:"expected,omitempty"`
	GoTest   string `json:"go_test,omitempty"`
}

// Report is what one worker produces.
type Report struct {
	Evaluations int64            `json:"evaluations"`
	Nontrivial  int64            `json:"nontrivial"`
	States      int64            `json:"states"`
	Transitions int64            `json:"transitions"`
	Traces      int64            `json:"traces"`
	Counters    map[string]int64 `json:"counters"`
	Samples     []any            `json:"samples"`
	Violations  []Violation      `json:"violations"`
	Exhaustive  bool             `json:"exhaustive"`
	Cap         string           `json:"cap,omitempty"`
	HarnessErr  string           `json:"harness_error,omitempty"`
	Notes       []string         `json:"notes,omitempty"`
	Extra       map[string]any   `json:"extra,omitempty"`
}

// Ctx is handed to a check's Run in each worker.
type Ctx struct {
	ID       string
	Tier     string
	Shard    int
	NShards  int
	Deadline time.Time
	Scratch  string
	Repo     string
	Verif    string
	Rep      *Report
	perKey   map[string]int
	hitCap   bool
}

func (c *Ctx) Thorough() bool { return c.Tier == "thorough" }

// Mine tells whether case index i belongs to this worker.
func (c *Ctx) Mine(i int64) bool { return int(i%int64(c.NShards)) == c.Shard }

// Expired reports whether the internal deadline passed (then the run is
// reported exhaustive:false with the cap that was hit, exit 0).
func (c *Ctx) Expired() bool {
	if c.hitCap {
		return true
	}
	if time.Now().After(c.Deadline) {
		c.hitCap = true
		c.Rep.Exhaustive = false
		c.Rep.Cap = "internal deadline"
		return true
	}
	return false
}

func (c *Ctx) Count(name string, n int64) { c.Rep.Counters[name] += n }

func (c *Ctx) Sample(s any) {
	if len(c.Rep.Samples) < 3 {
		c.Rep.Samples = append(c.Rep.Samples, s)
	}
}

// Violate records a violation (at most 5 per key per worker are kept).
// jsonSafe returns x if it can be encoded as JSON (NaN and Inf cannot), else its printed form.
func jsonSafe(x any) any {
	if x == nil {
		return nil
	}
	if _, err := json.Marshal(x); err != nil {
		return fmt.Sprintf("%+v", x)
	}
	return x
}

func (c *Ctx) Violate(v Violation) {
	v.Property = c.ID
	v.Case, v.Observed, v.Expected = jsonSafe(v.Case), jsonSafe(v.Observed), jsonSafe(v.Expected)
	c.Count("violations_raw", 1)
	c.Count("violation_key:"+v.Key, 1)
	if c.perKey[v.Key] >= 5 {
		return
	}
	c.perKey[v.Key]++
	c.Rep.Violations = append(c.Rep.Violations, v)
}

func (c *Ctx) Fail(format string, a ...any) {
	if c.Rep.HarnessErr == "" {
		c.Rep.HarnessErr = fmt.Sprintf(format, a...)
	}
}

func (c *Ctx) Note(format string, a ...any) {
	if len(c.Rep.Notes) < 20 {
		c.Rep.Notes = append(c.Rep.Notes, fmt.Sprintf(format, a...))
	}
}

// Check is one property's machinery.
type Check struct {
	ID        string
	Level     string // model_checking | fault_enumeration
	Rule      string
	Assume    []string
	Workers   int // 0 = 16
	QuickSecs int // internal deadline per tier
	ThorSecs  int
	// Run enumerates this worker's shard.
	Run func(c *Ctx)
	// Replay re-executes one recorded case and returns its violations.
	Replay func(c *Ctx, raw json.RawMessage) []Violation
	// Finish may assert non-vacuity on the merged report (parent only).
	Finish func(merged *Report, tier string) (harnessErr string)
	// StatesRule, if set, means states/transitions/traces are meaningful.
	Graph bool
}

var registry = map[string]*Check{}

func Register(c *Check) { registry[c.ID] = c }

// ---------------------------------------------------------------- known findings

type Finding struct {
	Kind     string `json:"kind"` // known | fixed
	Property string `json:"property"`
	Key      string `json:"key,omitempty"`
	Commit   string `json:"commit,omitempty"`
	What     string `json:"what"`
}

func loadFindings(verif string) []Finding {
	b, err := os.ReadFile(filepath.Join(verif, "known_findings.json"))
	if err != nil {
		return nil
	}
	var f []Finding
	if err := json.Unmarshal(b, &f); err != nil {
		fmt.Fprintf(os.Stderr, "known_findings.json: %v\n", err)
		os.Exit(2)
	}
	return f
}

// ---------------------------------------------------------------- main

func env(k, d string) string {
	if v := os.Getenv(k); v != "" {
		return v
	}
	return d
}

// Main is the entry point of the vcheck binary.
//
//	vcheck <ID> <quick|thorough>
//	vcheck <ID> --replay <file>
//	vcheck -worker <i> <n> <out> <ID> <tier>
//
// Subs are extra sub-commands of the vcheck binary (child processes a check
// spawns for itself, e.g. memory-capped loaders): vcheck -sub <name> args...
var Subs = map[string]func(args []string) int{}

func Main() {
	args := os.Args[1:]
	if len(args) >= 2 && args[0] == "-sub" {
		f := Subs[args[1]]
		if f == nil {
			fmt.Fprintf(os.Stderr, "unknown sub-command %s\n", args[1])
			os.Exit(2)
		}
		os.Exit(f(args[2:]))
	}
	if len(args) >= 6 && args[0] == "-worker" {
		i, _ := strconv.Atoi(args[1])
		n, _ := strconv.Atoi(args[2])
		os.Exit(worker(i, n, args[3], args[4], args[5]))
	}
	if len(args) < 2 {
		fmt.Fprintln(os.Stderr, "usage: vcheck <ID> <quick|thorough> | vcheck <ID> --replay <file>")
		os.Exit(2)
	}
	id := args[0]
	ck := registry[id]
	if ck == nil {
		fmt.Fprintf(os.Stderr, "unknown check %s\n", id)
		os.Exit(2)
	}
	if args[1] == "--replay" {
		if len(args) < 3 {
			fmt.Fprintln(os.Stderr, "need replay file")
			os.Exit(2)
		}
		os.Exit(replay(ck, args[2]))
	}
	tier := args[1]
	if t := os.Getenv("VERIF_TIER"); t != "" && len(args) < 2 {
		tier = t
	}
	if tier != "quick" && tier != "thorough" {
		fmt.Fprintf(os.Stderr, "bad tier %q\n", tier)
		os.Exit(2)
	}
	os.Exit(parent(ck, tier))
}

func newCtx(ck *Check, tier string, shard, n int) *Ctx {
	secs := ck.QuickSecs
	if secs == 0 {
		secs = 100
	}
	if tier == "thorough" {
		secs = ck.ThorSecs
		if secs == 0 {
			secs = 900
		}
	}
	if v := os.Getenv("VERIF_DEADLINE_S"); v != "" {
		if x, err := strconv.Atoi(v); err == nil {
			secs = x
		}
	}
	scratch := env("VERIF_SCRATCH", os.TempDir())
	return &Ctx{ID: ck.ID, Tier: tier, Shard: shard, NShards: n,
		Deadline: time.Now().Add(time.Duration(secs) * time.Second),
		Scratch:  scratch, Repo: env("VERIF_REPO", "/repo"), Verif: env("VERIF_ROOT", "/verif"),
		Rep:    &Report{Counters: map[string]int64{}, Exhaustive: true, Extra: map[string]any{}},
		perKey: map[string]int{}}
}

func worker(i, n int, out, id, tier string) (code int) {
	ck := registry[id]
	if ck == nil {
		return 2
	}
	c := newCtx(ck, tier, i, n)
	c.Scratch = filepath.Join(c.Scratch, fmt.Sprintf("w%d", i))
	os.MkdirAll(c.Scratch, 0o755)
	// the code under test prints warnings; a worker's only output is its report
	if dn, err := os.OpenFile(os.DevNull, os.O_WRONLY, 0); err == nil {
		os.Stdout = dn
	}
	log.SetOutput(io.Discard)
	// watchdog: a call under test that never returns must not turn into a check that never ends
	finished := make(chan struct{})
	go func() {
		grace := time.Until(c.Deadline) + 150*time.Second
		select {
		case <-finished:
		case <-time.After(grace):
			rep := Report{Counters: map[string]int64{}, Exhaustive: false, Cap: "worker watchdog",
				HarnessErr: fmt.Sprintf("worker %d did not finish within its deadline plus 150 s: a call under test did not return (hang) and could not be attributed", i)}
			b, _ := json.Marshal(rep)
			os.WriteFile(out, b, 0o644)
			os.Exit(0)
		}
	}()
	func() {
		defer func() {
			if r := recover(); r != nil {
				c.Fail("worker %d panicked: %v", i, r)
			}
		}()
		ck.Run(c)
	}()
	close(finished)
	b, err := json.Marshal(c.Rep)
	if err != nil {
		// never lose a worker's verdict to an unencodable value
		c.Rep.Samples = nil
		c.Rep.Extra = nil
		c.Rep.HarnessErr = "report not encodable: " + err.Error()
		b, _ = json.Marshal(c.Rep)
	}
	if err := os.WriteFile(out, b, 0o644); err != nil {
		fmt.Fprintln(os.Stderr, err)
		return 2
	}
	return 0
}

func parent(ck *Check, tier string) int {
	start := time.Now()
	n := ck.Workers
	if n == 0 {
		n = 16
	}
	scratch := env("VERIF_SCRATCH", "")
	if scratch == "" {
		d, err := os.MkdirTemp("/dev/shm", "verif.run.")
		if err != nil {
			d, _ = os.MkdirTemp("", "verif.run.")
		}
		scratch = d
		defer os.RemoveAll(d)
		os.Setenv("VERIF_SCRATCH", scratch)
	}
	self, _ := os.Executable()
	type res struct {
		i   int
		err error
		out string
	}
	ch := make(chan res, n)
	for i := 0; i < n; i++ {
		go func(i int) {
			out := filepath.Join(scratch, fmt.Sprintf("report.%d.json", i))
			cmd := exec.Command(self, "-worker", strconv.Itoa(i), strconv.Itoa(n), out, ck.ID, tier)
			cmd.Stderr = os.Stderr
			cmd.Stdout = os.Stderr
			cmd.Env = append(os.Environ(), "GOMAXPROCS=2")
			ch <- res{i, cmd.Run(), out}
		}(i)
	}
	merged := &Report{Counters: map[string]int64{}, Exhaustive: true, Extra: map[string]any{}}
	harness := ""
	for k := 0; k < n; k++ {
		r := <-ch
		if r.err != nil {
			harness = fmt.Sprintf("worker %d: %v", r.i, r.err)
			continue
		}
		b, err := os.ReadFile(r.out)
		if err != nil {
			harness = fmt.Sprintf("worker %d: %v", r.i, err)
			continue
		}
		var rep Report
		if err := json.Unmarshal(b, &rep); err != nil {
			harness = fmt.Sprintf("worker %d: %v", r.i, err)
			continue
		}
		merged.Evaluations += rep.Evaluations
		merged.Nontrivial += rep.Nontrivial
		merged.States += rep.States
		merged.Transitions += rep.Transitions
		merged.Traces += rep.Traces
		for k, v := range rep.Counters {
			merged.Counters[k] += v
		}
		if len(merged.Samples) < 4 {
			merged.Samples = append(merged.Samples, rep.Samples...)
		}
		merged.Violations = append(merged.Violations, rep.Violations...)
		if !rep.Exhaustive {
			merged.Exhaustive = false
			merged.Cap = rep.Cap
		}
		if rep.HarnessErr != "" && harness == "" {
			harness = rep.HarnessErr
		}
		merged.Notes = append(merged.Notes, rep.Notes...)
		for k, v := range rep.Extra {
			if _, ok := merged.Extra[k]; !ok {
				merged.Extra[k] = v
			}
		}
	}
	if harness == "" && ck.Finish != nil {
		harness = ck.Finish(merged, tier)
	}
	return finish(ck, tier, merged, harness, time.Since(start))
}

func finish(ck *Check, tier string, m *Report, harness string, wall time.Duration) int {
	verif := env("VERIF_ROOT", "/verif")
	findings := loadFindings(verif)
	known := map[string]Finding{}
	for _, f := range findings {
		if f.Kind == "known" && f.Property == ck.ID {
			known[f.Key] = f
		}
	}
	// order violations: simplest key first, stable
	sort.SliceStable(m.Violations, func(i, j int) bool { return m.Violations[i].Key < m.Violations[j].Key })
	knownSeen := map[string]bool{}
	var unknown []Violation
	seenKey := map[string]int{}
	for _, v := range m.Violations {
		if _, ok := known[v.Key]; ok {
			knownSeen[v.Key] = true
			continue
		}
		if seenKey[v.Key] >= 3 {
			continue
		}
		seenKey[v.Key]++
		unknown = append(unknown, v)
	}
	code := 0
	var keys []string
	for k := range knownSeen {
		keys = append(keys, k)
	}
	sort.Strings(keys)
	for _, k := range keys {
		fmt.Printf("KNOWN-FINDING: property=%s %s [%s]\n", ck.ID, known[k].What, k)
	}
	replayDir := filepath.Join(verif, "replays", ck.ID)
	if os.Getenv("VERIF_NOEVIDENCE") != "" {
		// trial run against a scratch copy (bin/mutate): leave /verif untouched
		replayDir = filepath.Join("/dev/shm", "verif.trial.replays", ck.ID)
	}
	for _, v := range unknown {
		b, _ := json.MarshalIndent(v, "", " ")
		h := sha256.Sum256(b)
		os.MkdirAll(replayDir, 0o755)
		p := filepath.Join(replayDir, hex.EncodeToString(h[:6])+".json")
		os.WriteFile(p, b, 0o644)
		fmt.Printf("VIOLATION property=%s replay=%s\n", ck.ID, p)
		fmt.Printf("  key=%s what=%s\n", v.Key, v.What)
		code = 1
	}
	if harness != "" {
		fmt.Printf("HARNESS-ERROR property=%s %s\n", ck.ID, harness)
		if code == 0 {
			code = 2
		}
	}
	writeEvidence(ck, tier, m, len(unknown), wall, harness)
	fmt.Printf("%s %s: evaluations=%d nontrivial=%d states=%d transitions=%d violations=%d known=%d exhaustive=%v wall=%.1fs\n",
		ck.ID, tier, m.Evaluations, m.Nontrivial, m.States, m.Transitions, len(unknown), len(knownSeen), m.Exhaustive, wall.Seconds())
	return code
}

func writeEvidence(ck *Check, tier string, m *Report, viol int, wall time.Duration, harness string) {
	if os.Getenv("VERIF_NOEVIDENCE") != "" {
		return
	}
	verif := env("VERIF_ROOT", "/verif")
	seed, _ := strconv.Atoi(os.Getenv("VERIF_SEED"))
	cov := map[string]any{
		"evaluations":         m.Evaluations,
		"distinct_nontrivial": m.Nontrivial,
		"rule":                ck.Rule,
		"samples":             m.Samples,
		"exhaustive":          m.Exhaustive,
		"counters":            m.Counters,
	}
	if m.States > 0 && m.Transitions > 0 {
		cov["states"] = m.States
		cov["transitions"] = m.Transitions
		cov["traces_validated_against_impl"] = m.Traces
	}
	if m.Cap != "" {
		cov["cap_hit"] = m.Cap
	}
	if len(m.Notes) > 0 {
		cov["notes"] = m.Notes
	}
	for k, v := range m.Extra {
		cov[k] = v
	}
	if b, err := os.ReadFile(filepath.Join(env("VERIF_BUILD", ""), "vinstr_report.json")); err == nil {
		var vr map[string]any
		if json.Unmarshal(b, &vr) == nil {
			cov["instrumentation"] = vr
		}
	}
	if harness != "" {
		cov["harness_error"] = harness
	}
	if len(m.Samples) == 0 {
		cov["samples"] = []any{"(no sample recorded)"}
	}
	ev := map[string]any{
		"property_id": ck.ID,
		"tier":        tier,
		"seed":        seed,
		"level":       ck.Level,
		"coverage":    cov,
		"assumptions": ck.Assume,
		"wall_s":      wall.Seconds(),
		"violations":  viol,
	}
	b, _ := json.MarshalIndent(ev, "", " ")
	os.MkdirAll(filepath.Join(verif, "evidence"), 0o755)
	os.WriteFile(filepath.Join(verif, "evidence", ck.ID+".json"), b, 0o644)
}

func replay(ck *Check, file string) int {
	b, err := os.ReadFile(file)
	if err != nil {
		fmt.Fprintln(os.Stderr, err)
		return 2
	}
	var v struct {
		Key  string          `json:"key"`
		Case json.RawMessage `json:"case"`
	}
	if err := json.Unmarshal(b, &v); err != nil {
		fmt.Fprintln(os.Stderr, err)
		return 2
	}
	if ck.Replay == nil {
		fmt.Fprintln(os.Stderr, "check has no replay")
		return 2
	}
	c := newCtx(ck, "quick", 0, 1)
	d, _ := os.MkdirTemp("/dev/shm", "verif.replay.")
	defer os.RemoveAll(d)
	c.Scratch = d
	vs := ck.Replay(c, v.Case)
	if len(vs) == 0 {
		fmt.Printf("replay: no violation reproduced (property %s holds on this case)\n", ck.ID)
		return 0
	}
	for _, x := range vs {
		ob, _ := json.Marshal(x.Observed)
		eb, _ := json.Marshal(x.Expected)
		fmt.Printf("VIOLATION property=%s replay=%s\n  key=%s what=%s\n  observed=%s\n  expected=%s\n", ck.ID, file, x.Key, x.What, trunc(string(ob)), trunc(string(eb)))
	}
	return 1
}

func trunc(s string) string {
	if len(s) > 600 {
		return s[:600] + "…"
	}
	return s
}

// Digest is a short stable hash of any JSON-able value.
func Digest(v any) string {
	b, _ := json.Marshal(v)
	h := sha256.Sum256(b)
	return hex.EncodeToString(h[:8])
}

// Confirm re-evaluates f n times and reports whether every run produced a
// violation with the same key as want (determinism of a counterexample).
func Confirm(n int, want string, f func() []Violation) bool {
	for i := 0; i < n; i++ {
		ok := false
		for _, v := range f() {
			if v.Key == want {
				ok = true
			}
		}
		if !ok {
			return false
		}
	}
	return true
}

func Join(ss []string) string { return strings.Join(ss, " ") }

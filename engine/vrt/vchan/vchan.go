// Package vchan makes the channel operations of the code under test scheduling
// points of the controlled scheduler (engine E3). vinstr rewrites
//
//	ch <- v            ->  vchan.SendTo(ch).Do(v)
//	<-ch               ->  vchan.Recv(ch)
//	v, ok := <-ch      ->  vchan.Recv2(ch)
//	close(ch)          ->  vchan.Close(ch)
//	for v := range ch  ->  for { v, ok := vchan.Recv2(ch); if !ok { break }; ... }
//	select { ... }     ->  NewSelect / AddRecv / AddSend / Wait and a switch
//
// With no scheduler active every function performs the real operation. Under
// the scheduler exactly one thread runs at a time, so a real unbuffered
// rendezvous can never complete; unbuffered channels are therefore modelled the
// way the runtime implements them (a queue of parked senders and one of parked
// receivers, direct hand-off), buffered channels use the real buffer through
// non-blocking operations, and a thread that cannot proceed is parked in the
// scheduler (Sched.BlockChan) until a partner operation wakes it.
//
// Not modelled: select's random choice among several ready cases (the first
// ready case in source order is taken), and operations by goroutines the
// scheduler does not own (timers, tickers, contexts) - a receive from such a
// channel is tried on the real channel first and otherwise parks.
package vchan

import (
	"reflect"

	"github.com/Vedant9500/WTF/internal/zzvrt/vsched"
)

type waiter struct {
	val  any
	ok   bool
	done bool
	sel  *Sel
	idx  int
}

type state struct {
	ref    any // keeps the channel alive so its address cannot be reused within one execution
	recvq  []*waiter
	sendq  []*waiter
	parked []any // threads / selects to wake on any change (buffered retry, close)
	closed bool
}

var (
	owner *vsched.Sched
	table map[uintptr]*state
)

func stateOf(s *vsched.Sched, ch any, ptr uintptr) *state {
	if owner != s {
		owner = s
		table = map[uintptr]*state{}
	}
	st := table[ptr]
	if st == nil {
		st = &state{ref: ch}
		table[ptr] = st
	}
	return st
}

func ptrOf(ch any) uintptr { return reflect.ValueOf(ch).Pointer() }

func (st *state) notify(s *vsched.Sched) {
	for _, p := range st.parked {
		if sel, ok := p.(*Sel); ok {
			sel.poked = true
		}
		s.Unblock(p)
	}
	st.parked = st.parked[:0]
}

func live(q []*waiter) (*waiter, []*waiter) {
	for len(q) > 0 {
		w := q[0]
		q = q[1:]
		if w.done || (w.sel != nil && w.sel.fired) {
			continue
		}
		return w, q
	}
	return nil, q
}

func remove(q []*waiter, w *waiter) []*waiter {
	for i, x := range q {
		if x == w {
			return append(q[:i:i], q[i+1:]...)
		}
	}
	return q
}

func complete(s *vsched.Sched, w *waiter) {
	w.done = true
	if w.sel != nil {
		w.sel.fired = true
		w.sel.chosen = w.idx
		s.Unblock(w.sel)
		return
	}
	s.Unblock(w)
}

func blockForever(s *vsched.Sched, op string) {
	never := new(int)
	for {
		s.BlockChan(never, op+"(nil channel)")
	}
}

// ---- send ----

type Sender[T any] struct{ ch chan<- T }

// SendTo(ch).Do(v) is `ch <- v` (two steps so that v is converted to the element type by the
// ordinary assignability rules).
func SendTo[T any](ch chan<- T) Sender[T] { return Sender[T]{ch} }

func trySend[T any](s *vsched.Sched, st *state, ch chan<- T, v T) bool {
	if st.closed {
		panic("send on closed channel")
	}
	if cap(ch) > 0 {
		select {
		case ch <- v:
			st.notify(s)
			return true
		default:
			return false
		}
	}
	var r *waiter
	r, st.recvq = live(st.recvq)
	if r == nil {
		return false
	}
	r.val, r.ok = v, true
	complete(s, r)
	return true
}

func (x Sender[T]) Do(v T) {
	ch := x.ch
	s := vsched.Cur()
	if s == nil {
		ch <- v
		return
	}
	s.ChanOps++
	s.Yield("chan send")
	if ch == nil {
		blockForever(s, "send")
	}
	st := stateOf(s, ch, ptrOf(ch))
	if trySend(s, st, ch, v) {
		return
	}
	if cap(ch) > 0 {
		for {
			me := new(int)
			st.parked = append(st.parked, me)
			s.BlockChan(me, "send(buffer full)")
			if trySend(s, st, ch, v) {
				return
			}
		}
	}
	w := &waiter{val: v}
	st.sendq = append(st.sendq, w)
	for !w.done {
		if st.closed {
			st.sendq = remove(st.sendq, w)
			panic("send on closed channel")
		}
		st.parked = append(st.parked, w)
		s.BlockChan(w, "send(waiting for a receiver)")
	}
}

// ---- receive ----

func conv[T any](v any) T {
	if v == nil {
		var z T
		return z
	}
	return v.(T)
}

func tryRecv[T any](s *vsched.Sched, st *state, ch <-chan T) (T, bool, bool) {
	var z T
	if cap(ch) > 0 {
		select {
		case v, ok := <-ch:
			st.notify(s)
			return v, ok, true
		default:
			return z, false, false
		}
	}
	var w *waiter
	w, st.sendq = live(st.sendq)
	if w != nil {
		v := conv[T](w.val)
		complete(s, w)
		return v, true, true
	}
	if st.closed {
		return z, false, true
	}
	// a sender the scheduler does not own (timer, ticker, context): take what is really there
	select {
	case v, ok := <-ch:
		return v, ok, true
	default:
	}
	return z, false, false
}

func Recv2[T any](ch <-chan T) (T, bool) {
	s := vsched.Cur()
	if s == nil {
		v, ok := <-ch
		return v, ok
	}
	s.ChanOps++
	s.Yield("chan recv")
	if ch == nil {
		blockForever(s, "recv")
	}
	st := stateOf(s, ch, ptrOf(ch))
	if v, ok, did := tryRecv(s, st, ch); did {
		return v, ok
	}
	if cap(ch) > 0 {
		for {
			me := new(int)
			st.parked = append(st.parked, me)
			s.BlockChan(me, "recv(buffer empty)")
			if v, ok, did := tryRecv(s, st, ch); did {
				return v, ok
			}
		}
	}
	w := &waiter{}
	st.recvq = append(st.recvq, w)
	for !w.done {
		if st.closed {
			st.recvq = remove(st.recvq, w)
			var z T
			return z, false
		}
		st.parked = append(st.parked, w)
		s.BlockChan(w, "recv(waiting for a sender)")
	}
	return conv[T](w.val), w.ok
}

func Recv[T any](ch <-chan T) T {
	v, _ := Recv2(ch)
	return v
}

// ---- close ----

func Close[T any](ch chan<- T) {
	s := vsched.Cur()
	if s == nil {
		close(ch)
		return
	}
	s.ChanOps++
	s.Yield("chan close")
	close(ch) // panics for a nil or already closed channel, as it must
	st := stateOf(s, ch, ptrOf(ch))
	st.closed = true
	for {
		var r *waiter
		r, st.recvq = live(st.recvq)
		if r == nil {
			break
		}
		r.val, r.ok = nil, false
		complete(s, r)
	}
	st.notify(s)
}

// ---- select ----

type selCase interface {
	try(s *vsched.Sched) bool
	park(sel *Sel, s *vsched.Sched)
	unpark(s *vsched.Sched)
	reflectCase() reflect.SelectCase
	took(v reflect.Value, ok bool)
	fromWaiter()
}

// Sel is one execution of a select statement.
type Sel struct {
	hasDefault bool
	cases      []selCase
	fired      bool
	poked      bool
	chosen     int
}

func NewSelect(hasDefault bool) *Sel { return &Sel{hasDefault: hasDefault} }

type RecvCase[T any] struct {
	ch  <-chan T
	V   T
	Ok  bool
	st  *state
	w   *waiter
	idx int
}

func AddRecv[T any](sel *Sel, ch <-chan T) *RecvCase[T] {
	c := &RecvCase[T]{ch: ch, idx: len(sel.cases)}
	sel.cases = append(sel.cases, c)
	return c
}

func (c *RecvCase[T]) state(s *vsched.Sched) *state {
	if c.st == nil && c.ch != nil {
		c.st = stateOf(s, c.ch, ptrOf(c.ch))
	}
	return c.st
}

func (c *RecvCase[T]) try(s *vsched.Sched) bool {
	st := c.state(s)
	if st == nil {
		return false
	}
	v, ok, did := tryRecv(s, st, c.ch)
	if did {
		c.V, c.Ok = v, ok
	}
	return did
}

func (c *RecvCase[T]) park(sel *Sel, s *vsched.Sched) {
	st := c.state(s)
	if st == nil {
		return
	}
	if cap(c.ch) == 0 {
		c.w = &waiter{sel: sel, idx: c.idx}
		st.recvq = append(st.recvq, c.w)
	}
	st.parked = append(st.parked, sel)
}

func (c *RecvCase[T]) unpark(s *vsched.Sched) {
	if c.st != nil && c.w != nil {
		c.st.recvq = remove(c.st.recvq, c.w)
	}
}

func (c *RecvCase[T]) fromWaiter() {
	c.V, c.Ok = conv[T](c.w.val), c.w.ok
}

func (c *RecvCase[T]) reflectCase() reflect.SelectCase {
	return reflect.SelectCase{Dir: reflect.SelectRecv, Chan: reflect.ValueOf(c.ch)}
}

func (c *RecvCase[T]) took(v reflect.Value, ok bool) {
	c.Ok = ok
	if ok {
		c.V = v.Interface().(T)
	}
}

type SendCase[T any] struct {
	ch  chan<- T
	v   T
	st  *state
	w   *waiter
	idx int
}

func AddSend[T any](sel *Sel, ch chan<- T) *SendCase[T] {
	c := &SendCase[T]{ch: ch, idx: len(sel.cases)}
	sel.cases = append(sel.cases, c)
	return c
}

// Val sets the value to send (separate step: ordinary assignability to the element type).
func (c *SendCase[T]) Val(v T) *SendCase[T] { c.v = v; return c }

func (c *SendCase[T]) state(s *vsched.Sched) *state {
	if c.st == nil && c.ch != nil {
		c.st = stateOf(s, c.ch, ptrOf(c.ch))
	}
	return c.st
}

func (c *SendCase[T]) try(s *vsched.Sched) bool {
	st := c.state(s)
	if st == nil {
		return false
	}
	return trySend(s, st, c.ch, c.v)
}

func (c *SendCase[T]) park(sel *Sel, s *vsched.Sched) {
	st := c.state(s)
	if st == nil {
		return
	}
	if cap(c.ch) == 0 {
		c.w = &waiter{val: c.v, sel: sel, idx: c.idx}
		st.sendq = append(st.sendq, c.w)
	}
	st.parked = append(st.parked, sel)
}

func (c *SendCase[T]) unpark(s *vsched.Sched) {
	if c.st != nil && c.w != nil {
		c.st.sendq = remove(c.st.sendq, c.w)
	}
}

func (c *SendCase[T]) fromWaiter() {}

func (c *SendCase[T]) reflectCase() reflect.SelectCase {
	return reflect.SelectCase{Dir: reflect.SelectSend, Chan: reflect.ValueOf(c.ch), Send: reflect.ValueOf(&c.v).Elem()}
}

func (c *SendCase[T]) took(reflect.Value, bool) {}

// Wait performs the select and returns the index of the case that proceeded (in the order the
// cases were added), or -1 for the default clause.
func (sel *Sel) Wait() int {
	s := vsched.Cur()
	if s == nil {
		cs := make([]reflect.SelectCase, 0, len(sel.cases)+1)
		for _, c := range sel.cases {
			rc := c.reflectCase()
			if !rc.Chan.IsValid() || rc.Chan.IsNil() {
				rc = reflect.SelectCase{Dir: reflect.SelectRecv} // nil channel: never ready
			}
			cs = append(cs, rc)
		}
		if sel.hasDefault {
			cs = append(cs, reflect.SelectCase{Dir: reflect.SelectDefault})
		}
		if len(cs) == 0 {
			select {}
		}
		i, v, ok := reflect.Select(cs)
		if i >= len(sel.cases) {
			return -1
		}
		sel.cases[i].took(v, ok)
		return i
	}
	s.ChanOps++
	s.Yield("select")
	for {
		for i, c := range sel.cases {
			if c.try(s) {
				return i
			}
		}
		if sel.hasDefault {
			return -1
		}
		sel.fired, sel.poked = false, false
		for _, c := range sel.cases {
			c.park(sel, s)
		}
		for !sel.fired && !sel.poked {
			s.BlockChan(sel, "select(blocked)")
		}
		for _, c := range sel.cases {
			c.unpark(s)
		}
		if sel.fired {
			sel.cases[sel.chosen].fromWaiter()
			return sel.chosen
		}
	}
}

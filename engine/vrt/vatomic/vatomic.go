// Package vatomic mirrors the function API of sync/atomic; every operation is
// a scheduling point when the controlled scheduler is active. The typed API
// (atomic.Int64 etc.) is aliased to the real types: those operations are
// atomic but not scheduling points (limitation noted in DESIGN.md).
package vatomic

import (
	"sync/atomic"
	"unsafe"

	"github.com/Vedant9500/WTF/internal/zzvrt/vsched"
)

type (
	Int32   = atomic.Int32
	Int64   = atomic.Int64
	Uint32  = atomic.Uint32
	Uint64  = atomic.Uint64
	Uintptr = atomic.Uintptr
	Bool    = atomic.Bool
	Value   = atomic.Value
)

type Pointer[T any] = atomic.Pointer[T]

func point(op string) {
	if s := vsched.Cur(); s != nil {
		s.Yield(op)
	}
}

func AddInt32(addr *int32, delta int32) int32 { point("AddInt32"); return atomic.AddInt32(addr, delta) }
func AddInt64(addr *int64, delta int64) int64 { point("AddInt64"); return atomic.AddInt64(addr, delta) }
func AddUint32(addr *uint32, delta uint32) uint32 {
	point("AddUint32")
	return atomic.AddUint32(addr, delta)
}
func AddUint64(addr *uint64, delta uint64) uint64 {
	point("AddUint64")
	return atomic.AddUint64(addr, delta)
}
func LoadInt32(addr *int32) int32          { point("LoadInt32"); return atomic.LoadInt32(addr) }
func LoadInt64(addr *int64) int64          { point("LoadInt64"); return atomic.LoadInt64(addr) }
func LoadUint32(addr *uint32) uint32       { point("LoadUint32"); return atomic.LoadUint32(addr) }
func LoadUint64(addr *uint64) uint64       { point("LoadUint64"); return atomic.LoadUint64(addr) }
func StoreInt32(addr *int32, v int32)      { point("StoreInt32"); atomic.StoreInt32(addr, v) }
func StoreInt64(addr *int64, v int64)      { point("StoreInt64"); atomic.StoreInt64(addr, v) }
func StoreUint32(addr *uint32, v uint32)   { point("StoreUint32"); atomic.StoreUint32(addr, v) }
func StoreUint64(addr *uint64, v uint64)   { point("StoreUint64"); atomic.StoreUint64(addr, v) }
func SwapInt32(addr *int32, v int32) int32 { point("SwapInt32"); return atomic.SwapInt32(addr, v) }
func SwapInt64(addr *int64, v int64) int64 { point("SwapInt64"); return atomic.SwapInt64(addr, v) }
func CompareAndSwapInt32(addr *int32, o, n int32) bool {
	point("CASInt32")
	return atomic.CompareAndSwapInt32(addr, o, n)
}
func CompareAndSwapInt64(addr *int64, o, n int64) bool {
	point("CASInt64")
	return atomic.CompareAndSwapInt64(addr, o, n)
}
func CompareAndSwapUint32(addr *uint32, o, n uint32) bool {
	point("CASUint32")
	return atomic.CompareAndSwapUint32(addr, o, n)
}
func CompareAndSwapUint64(addr *uint64, o, n uint64) bool {
	point("CASUint64")
	return atomic.CompareAndSwapUint64(addr, o, n)
}
func LoadPointer(addr *unsafe.Pointer) unsafe.Pointer {
	point("LoadPointer")
	return atomic.LoadPointer(addr)
}
func StorePointer(addr *unsafe.Pointer, v unsafe.Pointer) {
	point("StorePointer")
	atomic.StorePointer(addr, v)
}

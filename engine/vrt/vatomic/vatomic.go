// Package vatomic mirrors the function API of sync/atomic; every operation is
// a scheduling point when the controlled scheduler is active. The typed API
// (atomic.Int64, atomic.Pointer[T] ...) is mirrored by wrapper types whose
// methods are scheduling points too.
package vatomic

import (
	"sync/atomic"
	"unsafe"

	"github.com/Vedant9500/WTF/internal/zzvrt/vsched"
)

// Int32 mirrors atomic.Int32; every method is a scheduling point.
type Int32 struct{ v atomic.Int32 }

func (x *Int32) Load() int32        { point("Int32.Load"); return x.v.Load() }
func (x *Int32) Store(n int32)      { point("Int32.Store"); x.v.Store(n) }
func (x *Int32) Swap(n int32) int32 { point("Int32.Swap"); return x.v.Swap(n) }
func (x *Int32) CompareAndSwap(o, n int32) bool {
	point("Int32.CompareAndSwap")
	return x.v.CompareAndSwap(o, n)
}
func (x *Int32) Add(d int32) int32 { point("Int32.Add"); return x.v.Add(d) }
func (x *Int32) And(m int32) int32 { point("Int32.And"); return x.v.And(m) }
func (x *Int32) Or(m int32) int32  { point("Int32.Or"); return x.v.Or(m) }

// Int64 mirrors atomic.Int64; every method is a scheduling point.
type Int64 struct{ v atomic.Int64 }

func (x *Int64) Load() int64        { point("Int64.Load"); return x.v.Load() }
func (x *Int64) Store(n int64)      { point("Int64.Store"); x.v.Store(n) }
func (x *Int64) Swap(n int64) int64 { point("Int64.Swap"); return x.v.Swap(n) }
func (x *Int64) CompareAndSwap(o, n int64) bool {
	point("Int64.CompareAndSwap")
	return x.v.CompareAndSwap(o, n)
}
func (x *Int64) Add(d int64) int64 { point("Int64.Add"); return x.v.Add(d) }
func (x *Int64) And(m int64) int64 { point("Int64.And"); return x.v.And(m) }
func (x *Int64) Or(m int64) int64  { point("Int64.Or"); return x.v.Or(m) }

// Uint32 mirrors atomic.Uint32; every method is a scheduling point.
type Uint32 struct{ v atomic.Uint32 }

func (x *Uint32) Load() uint32         { point("Uint32.Load"); return x.v.Load() }
func (x *Uint32) Store(n uint32)       { point("Uint32.Store"); x.v.Store(n) }
func (x *Uint32) Swap(n uint32) uint32 { point("Uint32.Swap"); return x.v.Swap(n) }
func (x *Uint32) CompareAndSwap(o, n uint32) bool {
	point("Uint32.CompareAndSwap")
	return x.v.CompareAndSwap(o, n)
}
func (x *Uint32) Add(d uint32) uint32 { point("Uint32.Add"); return x.v.Add(d) }
func (x *Uint32) And(m uint32) uint32 { point("Uint32.And"); return x.v.And(m) }
func (x *Uint32) Or(m uint32) uint32  { point("Uint32.Or"); return x.v.Or(m) }

// Uint64 mirrors atomic.Uint64; every method is a scheduling point.
type Uint64 struct{ v atomic.Uint64 }

func (x *Uint64) Load() uint64         { point("Uint64.Load"); return x.v.Load() }
func (x *Uint64) Store(n uint64)       { point("Uint64.Store"); x.v.Store(n) }
func (x *Uint64) Swap(n uint64) uint64 { point("Uint64.Swap"); return x.v.Swap(n) }
func (x *Uint64) CompareAndSwap(o, n uint64) bool {
	point("Uint64.CompareAndSwap")
	return x.v.CompareAndSwap(o, n)
}
func (x *Uint64) Add(d uint64) uint64 { point("Uint64.Add"); return x.v.Add(d) }
func (x *Uint64) And(m uint64) uint64 { point("Uint64.And"); return x.v.And(m) }
func (x *Uint64) Or(m uint64) uint64  { point("Uint64.Or"); return x.v.Or(m) }

// Uintptr mirrors atomic.Uintptr; every method is a scheduling point.
type Uintptr struct{ v atomic.Uintptr }

func (x *Uintptr) Load() uintptr          { point("Uintptr.Load"); return x.v.Load() }
func (x *Uintptr) Store(n uintptr)        { point("Uintptr.Store"); x.v.Store(n) }
func (x *Uintptr) Swap(n uintptr) uintptr { point("Uintptr.Swap"); return x.v.Swap(n) }
func (x *Uintptr) CompareAndSwap(o, n uintptr) bool {
	point("Uintptr.CompareAndSwap")
	return x.v.CompareAndSwap(o, n)
}
func (x *Uintptr) Add(d uintptr) uintptr { point("Uintptr.Add"); return x.v.Add(d) }
func (x *Uintptr) And(m uintptr) uintptr { point("Uintptr.And"); return x.v.And(m) }
func (x *Uintptr) Or(m uintptr) uintptr  { point("Uintptr.Or"); return x.v.Or(m) }

// Bool mirrors atomic.Bool; every method is a scheduling point.
type Bool struct{ v atomic.Bool }

func (x *Bool) Load() bool       { point("Bool.Load"); return x.v.Load() }
func (x *Bool) Store(n bool)     { point("Bool.Store"); x.v.Store(n) }
func (x *Bool) Swap(n bool) bool { point("Bool.Swap"); return x.v.Swap(n) }
func (x *Bool) CompareAndSwap(o, n bool) bool {
	point("Bool.CompareAndSwap")
	return x.v.CompareAndSwap(o, n)
}

// Value mirrors atomic.Value.
type Value struct{ v atomic.Value }

func (x *Value) Load() any      { point("Value.Load"); return x.v.Load() }
func (x *Value) Store(n any)    { point("Value.Store"); x.v.Store(n) }
func (x *Value) Swap(n any) any { point("Value.Swap"); return x.v.Swap(n) }
func (x *Value) CompareAndSwap(o, n any) bool {
	point("Value.CompareAndSwap")
	return x.v.CompareAndSwap(o, n)
}

// Pointer mirrors atomic.Pointer[T].
type Pointer[T any] struct{ v atomic.Pointer[T] }

func (x *Pointer[T]) Load() *T     { point("Pointer.Load"); return x.v.Load() }
func (x *Pointer[T]) Store(n *T)   { point("Pointer.Store"); x.v.Store(n) }
func (x *Pointer[T]) Swap(n *T) *T { point("Pointer.Swap"); return x.v.Swap(n) }
func (x *Pointer[T]) CompareAndSwap(o, n *T) bool {
	point("Pointer.CompareAndSwap")
	return x.v.CompareAndSwap(o, n)
}

func point(op string) {
	if s := vsched.Cur(); s != nil {
		s.Yield(op)
	}
}

func AddInt32(addr *int32, delta int32) int32 { point("AddInt32"); return atomic.AddInt32(addr, delta) }
func AddInt64(addr *int64, delta int64) int64 { point("AddInt64"); return atomic.AddInt64(addr, delta) }
func AddUint32(addr *uint32, delta uint32) uint32 {
	point("AddUint32")
	return atomic.AddUint32(addr, delta)
}
func AddUint64(addr *uint64, delta uint64) uint64 {
	point("AddUint64")
	return atomic.AddUint64(addr, delta)
}
func LoadInt32(addr *int32) int32          { point("LoadInt32"); return atomic.LoadInt32(addr) }
func LoadInt64(addr *int64) int64          { point("LoadInt64"); return atomic.LoadInt64(addr) }
func LoadUint32(addr *uint32) uint32       { point("LoadUint32"); return atomic.LoadUint32(addr) }
func LoadUint64(addr *uint64) uint64       { point("LoadUint64"); return atomic.LoadUint64(addr) }
func StoreInt32(addr *int32, v int32)      { point("StoreInt32"); atomic.StoreInt32(addr, v) }
func StoreInt64(addr *int64, v int64)      { point("StoreInt64"); atomic.StoreInt64(addr, v) }
func StoreUint32(addr *uint32, v uint32)   { point("StoreUint32"); atomic.StoreUint32(addr, v) }
func StoreUint64(addr *uint64, v uint64)   { point("StoreUint64"); atomic.StoreUint64(addr, v) }
func SwapInt32(addr *int32, v int32) int32 { point("SwapInt32"); return atomic.SwapInt32(addr, v) }
func SwapInt64(addr *int64, v int64) int64 { point("SwapInt64"); return atomic.SwapInt64(addr, v) }
func CompareAndSwapInt32(addr *int32, o, n int32) bool {
	point("CASInt32")
	return atomic.CompareAndSwapInt32(addr, o, n)
}
func CompareAndSwapInt64(addr *int64, o, n int64) bool {
	point("CASInt64")
	return atomic.CompareAndSwapInt64(addr, o, n)
}
func CompareAndSwapUint32(addr *uint32, o, n uint32) bool {
	point("CASUint32")
	return atomic.CompareAndSwapUint32(addr, o, n)
}
func CompareAndSwapUint64(addr *uint64, o, n uint64) bool {
	point("CASUint64")
	return atomic.CompareAndSwapUint64(addr, o, n)
}
func LoadPointer(addr *unsafe.Pointer) unsafe.Pointer {
	point("LoadPointer")
	return atomic.LoadPointer(addr)
}
func StorePointer(addr *unsafe.Pointer, v unsafe.Pointer) {
	point("StorePointer")
	atomic.StorePointer(addr, v)
}

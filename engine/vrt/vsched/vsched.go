// Package vsched is the controlled (cooperative) scheduler of engine E3.
// Exactly one registered thread runs at a time; every synchronisation
// operation of the code under test (through the vsync / vatomic shims) is a
// scheduling point at which a Chooser decides who runs next. With no
// scheduler active the shims pass through to the real sync package.
package vsched

import (
	"fmt"
	"sync"
	"sync/atomic"
)

// Point is one scheduling decision of an execution.
type Point struct {
	Enabled        []int  // canonical order: running thread first if enabled, then ascending ids
	Running        int    // thread that reached the point (-1 at start / after an exit)
	RunningEnabled bool   // switching away from it costs a preemption
	Chosen         int    // index into Enabled
	Op             string // operation about to be performed by Running
}

// Chooser picks the index (into p.Enabled) of the thread to run next.
type Chooser func(i int, p *Point) int

type thread struct {
	id       int
	wake     chan struct{}
	done     bool
	blocked  any // object the thread waits for (nil = enabled)
	started  bool
	panicVal any
	chanWait bool // blocked in a channel operation (vchan): a spawned thread left like this when everything else has finished is a leaked goroutine, not a deadlock
}

// Sched is one execution under the controlled scheduler.
type Sched struct {
	threads   []*thread
	cur       int
	choose    Chooser
	Trace     []Point
	Deadlock  bool
	Overrun   bool // MaxPoints exceeded (livelock guard)
	abort     bool
	finished  chan struct{}
	MaxPoints int
	wg        sync.WaitGroup
	Spawned   int // goroutines started by the code under test through Go (rewritten `go` statements)
	nMain     int // threads 0..nMain-1 are the scenario's own bodies
	Leaked    int // spawned threads still parked in a channel operation when every other thread had finished
	ChanOps   int // channel operations performed under the scheduler (vchan)
}

type abortSentinel struct{}

var (
	mu     sync.Mutex
	active atomic.Pointer[Sched]
)

// Cur returns the active scheduler or nil (pass-through mode).
func Cur() *Sched { return active.Load() }

// Run executes bodies as threads 0..n-1 under the scheduler and returns the
// finished execution. Panics in bodies (other than the abort sentinel) are
// collected in PanicOf.
func Run(choose Chooser, bodies ...func()) *Sched {
	s := &Sched{choose: choose, cur: -1, finished: make(chan struct{}), MaxPoints: 100000}
	for i := range bodies {
		s.threads = append(s.threads, &thread{id: i, wake: make(chan struct{}, 1)})
	}
	s.nMain = len(bodies)
	mu.Lock()
	if active.Load() != nil {
		mu.Unlock()
		panic("vsched: nested Run")
	}
	active.Store(s)
	mu.Unlock()
	for i, b := range bodies {
		s.start(s.threads[i], b)
	}
	// initial decision
	s.switchFrom(-1, "start")
	<-s.finished
	s.wg.Wait()
	active.Store(nil)
	return s
}

// start launches the goroutine of thread t; it runs body when first chosen.
func (s *Sched) start(t *thread, body func()) {
	s.wg.Add(1)
	go func() {
		defer s.wg.Done()
		<-t.wake
		defer func() {
			if r := recover(); r != nil {
				if _, ok := r.(abortSentinel); !ok {
					t.panicVal = r
				}
			}
			t.done = true
			s.switchFrom(-1, "exit")
		}()
		if s.abort {
			panic(abortSentinel{})
		}
		body()
	}()
}

// Go is what a `go f()` statement of the code under test is rewritten to. With
// no scheduler active it is a plain goroutine; under the scheduler the new
// goroutine becomes a controlled thread (enabled at once) and the spawn is a
// scheduling point.
func Go(f func()) {
	s := Cur()
	if s == nil {
		go f()
		return
	}
	t := &thread{id: len(s.threads), wake: make(chan struct{}, 1)}
	s.threads = append(s.threads, t)
	s.Spawned++
	s.start(t, f)
	s.Yield("go")
}

// NumThreads returns how many threads (initial + spawned) the execution had.
func (s *Sched) NumThreads() int { return len(s.threads) }

// PanicOf returns the panic value of thread i (nil if none).
func (s *Sched) PanicOf(i int) any {
	if i < 0 || i >= len(s.threads) {
		return nil
	}
	return s.threads[i].panicVal
}

func (s *Sched) enabled(running int) (list []int, runningEnabled bool) {
	if running >= 0 {
		t := s.threads[running]
		if !t.done && t.blocked == nil {
			list = append(list, running)
			runningEnabled = true
		}
	}
	for _, t := range s.threads {
		if t.id == running || t.done || t.blocked != nil {
			continue
		}
		list = append(list, t.id)
	}
	return
}

// switchFrom makes a scheduling decision. running is the calling thread, or
// -1 when the caller is not a live thread (start, exit). If another thread is
// chosen the caller (when live) parks until it is chosen again.
func (s *Sched) switchFrom(running int, op string) {
	if s.abort {
		if running >= 0 {
			panic(abortSentinel{})
		}
		s.wakeAllForAbort()
		return
	}
	en, re := s.enabled(running)
	if len(en) == 0 {
		all := true
		for _, t := range s.threads {
			if !t.done {
				all = false
			}
		}
		if !all {
			// only goroutines started by the code under test are left, each parked in a channel
			// operation nobody will complete: in Go that is a leaked goroutine (a worker waiting for
			// jobs), not a deadlock of the calls under test.
			leakOnly, leaked := true, 0
			for _, t := range s.threads {
				if t.done {
					continue
				}
				if t.id < s.nMain || !t.chanWait {
					leakOnly = false
				}
				leaked++
			}
			if leakOnly {
				s.Leaked = leaked
			} else {
				s.Deadlock = true
			}
			s.abort = true
			if running >= 0 {
				// unwind this thread; its exit path wakes the next parked thread
				panic(abortSentinel{})
			}
			s.wakeAllForAbort()
			return
		}
		close(s.finished)
		return
	}
	p := Point{Enabled: en, Running: running, RunningEnabled: re, Op: op}
	idx := 0
	if len(en) > 1 {
		idx = s.choose(len(s.Trace), &p)
		if idx < 0 || idx >= len(en) {
			panic(fmt.Sprintf("vsched: chooser returned %d for %d enabled threads", idx, len(en)))
		}
	}
	p.Chosen = idx
	s.Trace = append(s.Trace, p)
	if len(s.Trace) > s.MaxPoints {
		s.abort = true
		s.Overrun = true
		if running >= 0 {
			panic(abortSentinel{})
		}
		s.wakeAllForAbort()
		return
	}
	next := en[idx]
	if next == running {
		return
	}
	s.cur = next
	nt := s.threads[next]
	nt.wake <- struct{}{}
	if running >= 0 {
		me := s.threads[running]
		<-me.wake
		if s.abort {
			panic(abortSentinel{})
		}
	}
}

func (s *Sched) wakeAllForAbort() {
	pending := 0
	for _, t := range s.threads {
		if !t.done {
			pending++
		}
	}
	if pending == 0 {
		select {
		case <-s.finished:
		default:
			close(s.finished)
		}
		return
	}
	// wake one parked thread; it panics with the sentinel, its exit path calls
	// switchFrom again which wakes the next one.
	for _, t := range s.threads {
		if !t.done && t.id != s.cur {
			s.cur = t.id
			select {
			case t.wake <- struct{}{}:
			default:
			}
			return
		}
	}
	for _, t := range s.threads {
		if !t.done {
			s.cur = t.id
			select {
			case t.wake <- struct{}{}:
			default:
			}
			return
		}
	}
}

// Yield is a scheduling point reached by the running thread before op.
func (s *Sched) Yield(op string) {
	s.switchFrom(s.cur, op)
}

// Block parks the running thread until obj is released (Unblock(obj)).
func (s *Sched) Block(obj any, op string) {
	me := s.cur
	s.threads[me].blocked = obj
	s.switchFrom(me, op)
}

// BlockChan is Block for a channel operation (see Leaked).
func (s *Sched) BlockChan(obj any, op string) {
	me := s.cur
	s.threads[me].blocked = obj
	s.threads[me].chanWait = true
	s.switchFrom(me, op)
	s.threads[me].chanWait = false
}

// Unblock makes every thread waiting for obj enabled again.
func (s *Sched) Unblock(obj any) {
	for _, t := range s.threads {
		if t.blocked == obj {
			t.blocked = nil
		}
	}
}

// Me returns the id of the running thread.
func (s *Sched) Me() int { return s.cur }

// Package vhost is the host-OS seam: runtime.GOOS in internal/database is
// rewritten to vhost.GOOS() so the model checker can enumerate the host.
package vhost

import (
	"os"
	"runtime"
	"sync/atomic"
)

var override atomic.Pointer[string]

func init() {
	if v := os.Getenv("VERIF_GOOS"); v != "" {
		override.Store(&v)
	}
}

// Set forces the reported host OS ("" = real).
func Set(goos string) {
	if goos == "" {
		override.Store(nil)
		return
	}
	override.Store(&goos)
}

func GOOS() string {
	if p := override.Load(); p != nil {
		return *p
	}
	return runtime.GOOS
}

// Package vmap owns the iteration order of every `range` over a map in the
// code under test. The vinstr rewriter turns
//
//	for k, v := range m { ... }
//
// into a loop over vmap.Keys(site, m). The order is decided by an oracle:
//   - pinned (default): keys in sorted order  -> every execution is a pure
//     function of its inputs;
//   - explored: the harness installs Choose, which is consulted at every
//     dynamic range point (a choice point of the model checker);
//   - process level: VERIF_MAPORDER=sorted|reverse|rotate|swap selects a fixed
//     non-canonical order for a whole process (CLI runs).
package vmap

import (
	"fmt"
	"os"
	"reflect"
	"sort"
	"sync/atomic"
)

// Choose, when non-nil, is called at every range point with the site label
// and the number of keys; it returns a permutation of 0..n-1 (nil = canonical).
var Choose func(site string, n int) []int

// Points counts dynamic range points (for evidence).
var Points atomic.Int64

var envMode = os.Getenv("VERIF_MAPORDER")

// Pair is a snapshot entry used for range operands that are not simple
// (side-effect free) expressions.
type Pair[K comparable, V any] struct {
	K K
	V V
}

// Keys returns the keys of m in the order the oracle decides.
func Keys[K comparable, V any](site string, m map[K]V) []K {
	keys := make([]K, 0, len(m))
	for k := range m {
		keys = append(keys, k)
	}
	sortKeys(keys)
	return permute(site, keys)
}

// Pairs returns a snapshot of m in the order the oracle decides.
func Pairs[K comparable, V any](site string, m map[K]V) []Pair[K, V] {
	keys := Keys(site, m)
	out := make([]Pair[K, V], len(keys))
	for i, k := range keys {
		out[i] = Pair[K, V]{k, m[k]}
	}
	return out
}

func permute[K any](site string, keys []K) []K {
	n := len(keys)
	Points.Add(1)
	if n < 2 {
		return keys
	}
	if Choose != nil {
		p := Choose(site, n)
		if p == nil {
			return keys
		}
		if len(p) != n {
			panic(fmt.Sprintf("vmap: bad permutation length %d for %d keys at %s", len(p), n, site))
		}
		out := make([]K, n)
		for i, j := range p {
			out[i] = keys[j]
		}
		return out
	}
	switch envMode {
	case "reverse":
		for i, j := 0, n-1; i < j; i, j = i+1, j-1 {
			keys[i], keys[j] = keys[j], keys[i]
		}
	case "rotate":
		first := keys[0]
		copy(keys, keys[1:])
		keys[n-1] = first
	case "swap":
		keys[0], keys[1] = keys[1], keys[0]
	}
	return keys
}

func sortKeys[K comparable](keys []K) {
	if len(keys) < 2 {
		return
	}
	switch ks := any(keys).(type) {
	case []string:
		sort.Strings(ks)
		return
	case []int:
		sort.Ints(ks)
		return
	}
	rv := reflect.ValueOf(keys[0])
	switch rv.Kind() {
	case reflect.String:
		sort.Slice(keys, func(i, j int) bool {
			return reflect.ValueOf(keys[i]).String() < reflect.ValueOf(keys[j]).String()
		})
	case reflect.Int, reflect.Int8, reflect.Int16, reflect.Int32, reflect.Int64:
		sort.Slice(keys, func(i, j int) bool {
			return reflect.ValueOf(keys[i]).Int() < reflect.ValueOf(keys[j]).Int()
		})
	case reflect.Uint, reflect.Uint8, reflect.Uint16, reflect.Uint32, reflect.Uint64, reflect.Uintptr:
		sort.Slice(keys, func(i, j int) bool {
			return reflect.ValueOf(keys[i]).Uint() < reflect.ValueOf(keys[j]).Uint()
		})
	case reflect.Float32, reflect.Float64:
		sort.Slice(keys, func(i, j int) bool {
			return reflect.ValueOf(keys[i]).Float() < reflect.ValueOf(keys[j]).Float()
		})
	case reflect.Pointer:
		sort.Slice(keys, func(i, j int) bool {
			return reflect.ValueOf(keys[i]).Pointer() < reflect.ValueOf(keys[j]).Pointer()
		})
	default:
		sort.Slice(keys, func(i, j int) bool {
			return fmt.Sprint(keys[i]) < fmt.Sprint(keys[j])
		})
	}
}

// Package vos is the file-system seam. vinstr rewrites the file-system
// selectors of package os in the code under test to this package. With no
// hooks installed everything passes through to package os.
//
// Fault model (DESIGN E5): every mutating operation is a numbered *step*
// (MkdirAll, create/truncate, each Write, Sync, Close of a written file,
// Rename, Remove, Chmod, Truncate). A Write of n bytes has n-1 interior crash
// positions in addition to the step boundary.
//
//   - crash at (step i, byte k): the first k bytes of that step reach the file,
//     Crashed is set, a sentinel panic unwinds to the harness and every later
//     mutating call is a no-op (a killed process runs no deferred clean-up);
//   - error at (step i, byte k): the call writes k bytes and returns Err;
//     execution continues, so the code's own error handling is what is checked;
//   - read-side script: per (op, path, attempt) answers for ReadFile/Stat/Open.
package vos

import (
	"io/fs"
	"os"
	"path/filepath"
	"sync"
	"time"
)

// Crash is the sentinel panic value of an injected crash.
type Crash struct{ Step, Byte int }

// StepRec describes one mutating step of an execution.
type StepRec struct {
	Op   string
	Path string
	N    int // bytes, for writes
}

// Hooks is a fault script plus the log of what happened.
type Hooks struct {
	CrashStep int // -1: none
	CrashByte int
	ErrStep   int // -1: none
	ErrByte   int
	Err       error

	// Read, if set, is asked for ReadFile/Stat/Open/ReadDir answers.
	// handled=false means "do the real thing".
	Read func(op, path string, attempt int) (data []byte, err error, handled bool)

	Crashed  bool
	Steps    []StepRec
	Attempts map[string]int // op+" "+path -> count
	Fired    bool           // the scripted error or crash was reached

	lk sync.Mutex // the code under test may read files from several goroutines
}

// NewHooks returns hooks with no fault scheduled.
func NewHooks() *Hooks {
	return &Hooks{CrashStep: -1, ErrStep: -1, Attempts: map[string]int{}}
}

var (
	mu sync.Mutex
	h  *Hooks
)

// Install sets (or clears, with nil) the active hooks.
func Install(x *Hooks) { mu.Lock(); h = x; mu.Unlock() }

func cur() *Hooks { mu.Lock(); defer mu.Unlock(); return h }

// step registers a mutating step of n bytes (n=0 for non-writes). It returns
// how many bytes may be written (allow), an error to return after that, and
// whether the operation must be skipped entirely (after a crash).
func (x *Hooks) step(op, path string, n int) (allow int, err error, skip bool) {
	x.lk.Lock()
	defer x.lk.Unlock()
	if x.Crashed {
		return 0, fs.ErrClosed, true
	}
	i := len(x.Steps)
	x.Steps = append(x.Steps, StepRec{op, path, n})
	if i == x.CrashStep {
		k := x.CrashByte
		if k > n {
			k = n
		}
		x.Fired = true
		return k, crashMarker, false
	}
	if i == x.ErrStep {
		k := x.ErrByte
		if k > n {
			k = n
		}
		x.Fired = true
		return k, x.Err, false
	}
	return n, nil, false
}

type crashErr struct{}

func (crashErr) Error() string { return "vos: injected crash" }

var crashMarker error = crashErr{}

func (x *Hooks) crash() {
	x.Crashed = true
	panic(Crash{Step: len(x.Steps) - 1, Byte: x.CrashByte})
}

func (x *Hooks) attempt(op, path string) int {
	x.lk.Lock()
	defer x.lk.Unlock()
	k := op + " " + path
	x.Attempts[k]++
	return x.Attempts[k]
}

// ask counts the attempt and asks the read script, atomically.
func (x *Hooks) ask(op, path string) ([]byte, error, bool) {
	x.lk.Lock()
	defer x.lk.Unlock()
	k := op + " " + path
	x.Attempts[k]++
	return x.Read(op, path, x.Attempts[k])
}

// ---------------------------------------------------------------- read side

func ReadFile(name string) ([]byte, error) {
	if x := cur(); x != nil && x.Read != nil {
		if d, err, ok := x.ask("ReadFile", name); ok {
			return d, err
		}
	} else if x != nil {
		x.attempt("ReadFile", name)
	}
	return os.ReadFile(name)
}

func Stat(name string) (os.FileInfo, error) {
	if x := cur(); x != nil && x.Read != nil {
		if d, err, ok := x.ask("Stat", name); ok {
			if err != nil {
				return nil, err
			}
			// a scripted (possibly virtual) file: synthesize its FileInfo
			return fakeInfo{name: filepath.Base(name), size: int64(len(d))}, nil
		}
	}
	return os.Stat(name)
}

type fakeInfo struct {
	name string
	size int64
}

func (f fakeInfo) Name() string       { return f.name }
func (f fakeInfo) Size() int64        { return f.size }
func (f fakeInfo) Mode() os.FileMode  { return 0o644 }
func (f fakeInfo) ModTime() time.Time { return time.Unix(0, 0) }
func (f fakeInfo) IsDir() bool        { return false }
func (f fakeInfo) Sys() any           { return nil }

func ReadDir(name string) ([]os.DirEntry, error) { return os.ReadDir(name) }

// ---------------------------------------------------------------- write side

func MkdirAll(path string, perm os.FileMode) error {
	x := cur()
	if x == nil {
		return os.MkdirAll(path, perm)
	}
	_, err, skip := x.step("MkdirAll", path, 0)
	if skip {
		return err
	}
	if err == crashMarker {
		x.crash()
	}
	if err != nil {
		return &os.PathError{Op: "mkdir", Path: path, Err: err}
	}
	return os.MkdirAll(path, perm)
}

func Rename(oldpath, newpath string) error {
	x := cur()
	if x == nil {
		return os.Rename(oldpath, newpath)
	}
	_, err, skip := x.step("Rename", oldpath+" -> "+newpath, 0)
	if skip {
		return err
	}
	if err == crashMarker {
		x.crash()
	}
	if err != nil {
		return &os.LinkError{Op: "rename", Old: oldpath, New: newpath, Err: err}
	}
	return os.Rename(oldpath, newpath)
}

func Remove(name string) error {
	x := cur()
	if x == nil {
		return os.Remove(name)
	}
	_, err, skip := x.step("Remove", name, 0)
	if skip {
		return err
	}
	if err == crashMarker {
		x.crash()
	}
	if err != nil {
		return &os.PathError{Op: "remove", Path: name, Err: err}
	}
	return os.Remove(name)
}

func Chmod(name string, mode os.FileMode) error {
	x := cur()
	if x == nil {
		return os.Chmod(name, mode)
	}
	_, err, skip := x.step("Chmod", name, 0)
	if skip {
		return err
	}
	if err == crashMarker {
		x.crash()
	}
	if err != nil {
		return &os.PathError{Op: "chmod", Path: name, Err: err}
	}
	return os.Chmod(name, mode)
}

func Truncate(name string, size int64) error {
	x := cur()
	if x == nil {
		return os.Truncate(name, size)
	}
	_, err, skip := x.step("Truncate", name, 0)
	if skip {
		return err
	}
	if err == crashMarker {
		x.crash()
	}
	if err != nil {
		return &os.PathError{Op: "truncate", Path: name, Err: err}
	}
	return os.Truncate(name, size)
}

// WriteFile is modelled as os.WriteFile is implemented: open with
// O_WRONLY|O_CREATE|O_TRUNC, one Write, Close.
func WriteFile(name string, data []byte, perm os.FileMode) error {
	if cur() == nil {
		return os.WriteFile(name, data, perm)
	}
	f, err := OpenFile(name, os.O_WRONLY|os.O_CREATE|os.O_TRUNC, perm)
	if err != nil {
		return err
	}
	_, err = f.Write(data)
	if err1 := f.Close(); err1 != nil && err == nil {
		err = err1
	}
	return err
}

// File wraps *os.File so that writes through a handle are steps too.
type File struct {
	*os.File
	path    string
	written bool
}

func wrap(f *os.File, err error, path string, w bool) (*File, error) {
	if err != nil {
		return nil, err
	}
	return &File{File: f, path: path, written: w}, nil
}

func Open(name string) (*File, error) {
	if x := cur(); x != nil && x.Read != nil {
		if d, err, ok := x.ask("Open", name); ok {
			if err != nil {
				return nil, err
			}
			// a scripted (possibly virtual) file: serve its content from an unlinked temporary file
			t, terr := os.CreateTemp("", "vos-open-*")
			if terr != nil {
				return nil, terr
			}
			os.Remove(t.Name())
			t.Write(d)
			t.Seek(0, 0)
			return wrap(t, nil, name, false)
		}
	}
	f, err := os.Open(name)
	return wrap(f, err, name, false)
}

func Create(name string) (*File, error) {
	return OpenFile(name, os.O_RDWR|os.O_CREATE|os.O_TRUNC, 0666)
}

func OpenFile(name string, flag int, perm os.FileMode) (*File, error) {
	x := cur()
	mut := flag&(os.O_WRONLY|os.O_RDWR|os.O_CREATE|os.O_TRUNC|os.O_APPEND) != 0
	if x == nil || !mut {
		f, err := os.OpenFile(name, flag, perm)
		return wrap(f, err, name, mut)
	}
	_, err, skip := x.step("OpenFile", name, 0)
	if skip {
		return nil, &os.PathError{Op: "open", Path: name, Err: err}
	}
	if err == crashMarker {
		x.crash()
	}
	if err != nil {
		return nil, &os.PathError{Op: "open", Path: name, Err: err}
	}
	f, e := os.OpenFile(name, flag, perm)
	return wrap(f, e, name, true)
}

func CreateTemp(dir, pattern string) (*File, error) {
	x := cur()
	if x == nil {
		f, err := os.CreateTemp(dir, pattern)
		if err != nil {
			return nil, err
		}
		return &File{File: f, path: f.Name(), written: true}, nil
	}
	_, err, skip := x.step("CreateTemp", dir+"/"+pattern, 0)
	if skip {
		return nil, &os.PathError{Op: "createtemp", Path: dir, Err: err}
	}
	if err == crashMarker {
		x.crash()
	}
	if err != nil {
		return nil, &os.PathError{Op: "createtemp", Path: dir, Err: err}
	}
	f, e := os.CreateTemp(dir, pattern)
	if e != nil {
		return nil, e
	}
	return &File{File: f, path: f.Name(), written: true}, nil
}

func (f *File) Write(b []byte) (int, error) {
	x := cur()
	if x == nil {
		return f.File.Write(b)
	}
	allow, err, skip := x.step("Write", f.path, len(b))
	if skip {
		return 0, &os.PathError{Op: "write", Path: f.path, Err: err}
	}
	n := 0
	if allow > 0 {
		var e error
		n, e = f.File.Write(b[:allow])
		if e != nil {
			return n, e
		}
	}
	if err == crashMarker {
		x.crash()
	}
	if err != nil {
		return n, &os.PathError{Op: "write", Path: f.path, Err: err}
	}
	return n, nil
}

func (f *File) WriteString(s string) (int, error) { return f.Write([]byte(s)) }

func (f *File) Sync() error {
	x := cur()
	if x == nil {
		return f.File.Sync()
	}
	_, err, skip := x.step("Sync", f.path, 0)
	if skip {
		return err
	}
	if err == crashMarker {
		x.crash()
	}
	if err != nil {
		return &os.PathError{Op: "sync", Path: f.path, Err: err}
	}
	return f.File.Sync()
}

func (f *File) Chmod(mode os.FileMode) error {
	x := cur()
	if x == nil {
		return f.File.Chmod(mode)
	}
	_, err, skip := x.step("Chmod", f.path, 0)
	if skip {
		return err
	}
	if err == crashMarker {
		x.crash()
	}
	if err != nil {
		return &os.PathError{Op: "chmod", Path: f.path, Err: err}
	}
	return f.File.Chmod(mode)
}

func (f *File) Close() error {
	x := cur()
	if x == nil || !f.written {
		return f.File.Close()
	}
	_, err, skip := x.step("Close", f.path, 0)
	if skip {
		f.File.Close()
		return err
	}
	if err == crashMarker {
		f.File.Close()
		x.crash()
	}
	e := f.File.Close()
	if err != nil {
		return &os.PathError{Op: "close", Path: f.path, Err: err}
	}
	return e
}

// Package vsync mirrors the API of package sync. Mutex and RWMutex are
// scheduling points of the controlled scheduler when one is active and plain
// sync primitives otherwise. The RWMutex model is writer-preferring like Go's: a
// reader arriving after a writer called Lock waits for that writer's Unlock.
package vsync

import (
	"sync"

	"github.com/Vedant9500/WTF/internal/zzvrt/vsched"
)

type (
	Once   = sync.Once
	Pool   = sync.Pool
	Map    = sync.Map
	Cond   = sync.Cond
	Locker = sync.Locker
)

func NewCond(l Locker) *Cond { return sync.NewCond(l) }

func OnceFunc(f func()) func() { return sync.OnceFunc(f) }

type Mutex struct {
	real sync.Mutex
	held bool
}

func (m *Mutex) Lock() {
	s := vsched.Cur()
	if s == nil {
		m.real.Lock()
		return
	}
	s.Yield("Lock")
	for m.held {
		s.Block(m, "Lock(blocked)")
	}
	m.held = true
}

func (m *Mutex) TryLock() bool {
	s := vsched.Cur()
	if s == nil {
		return m.real.TryLock()
	}
	s.Yield("TryLock")
	if m.held {
		return false
	}
	m.held = true
	return true
}

func (m *Mutex) Unlock() {
	s := vsched.Cur()
	if s == nil {
		m.real.Unlock()
		return
	}
	if !m.held {
		panic("sync: unlock of unlocked mutex")
	}
	m.held = false
	s.Unblock(m)
}

type RWMutex struct {
	real sync.RWMutex
	// model of Go's writer-preferring RWMutex under the controlled scheduler:
	// pending: a writer has announced itself (holds the writers' mutex): new readers wait behind it
	// writer:  that writer has the lock (all earlier readers have left)
	// waiting: readers parked behind the pending writer; its Unlock admits them all at once (gen changes)
	pending bool
	writer  bool
	readers int
	waiting int
	gen     int
}

func (m *RWMutex) Lock() {
	s := vsched.Cur()
	if s == nil {
		m.real.Lock()
		return
	}
	s.Yield("Lock")
	for m.pending {
		s.Block(m, "Lock(blocked)")
	}
	m.pending = true
	for m.readers > 0 {
		s.Block(m, "Lock(readers leaving)")
	}
	m.writer = true
}

func (m *RWMutex) TryLock() bool {
	s := vsched.Cur()
	if s == nil {
		return m.real.TryLock()
	}
	s.Yield("TryLock")
	if m.pending || m.readers > 0 {
		return false
	}
	m.pending = true
	m.writer = true
	return true
}

func (m *RWMutex) Unlock() {
	s := vsched.Cur()
	if s == nil {
		m.real.Unlock()
		return
	}
	if !m.writer {
		panic("sync: Unlock of unlocked RWMutex")
	}
	m.writer = false
	m.pending = false
	m.readers += m.waiting
	m.waiting = 0
	m.gen++
	s.Unblock(m)
}

func (m *RWMutex) RLock() {
	s := vsched.Cur()
	if s == nil {
		m.real.RLock()
		return
	}
	s.Yield("RLock")
	if m.pending {
		// as in Go: a reader arriving after a writer announced itself waits for that writer's Unlock,
		// even if it already holds a read lock (recursive read locking deadlocks)
		m.waiting++
		g := m.gen
		for m.gen == g {
			s.Block(m, "RLock(blocked)")
		}
		return
	}
	m.readers++
}

func (m *RWMutex) TryRLock() bool {
	s := vsched.Cur()
	if s == nil {
		return m.real.TryRLock()
	}
	s.Yield("TryRLock")
	if m.pending {
		return false
	}
	m.readers++
	return true
}

func (m *RWMutex) RUnlock() {
	s := vsched.Cur()
	if s == nil {
		m.real.RUnlock()
		return
	}
	if m.readers <= 0 {
		panic("sync: RUnlock of unlocked RWMutex")
	}
	m.readers--
	if m.readers == 0 {
		s.Unblock(m)
	}
}

func (m *RWMutex) RLocker() Locker { return (*rlocker)(m) }

type rlocker RWMutex

func (r *rlocker) Lock()   { (*RWMutex)(r).RLock() }
func (r *rlocker) Unlock() { (*RWMutex)(r).RUnlock() }

// WaitGroup: Wait blocks under the controlled scheduler until the counter is
// zero; Add / Done are plain bookkeeping there (only one thread runs at a time).
type WaitGroup struct {
	real sync.WaitGroup
	n    int
}

func (w *WaitGroup) Add(delta int) {
	s := vsched.Cur()
	if s == nil {
		w.real.Add(delta)
		return
	}
	w.n += delta
	if w.n < 0 {
		panic("sync: negative WaitGroup counter")
	}
	if w.n == 0 {
		s.Unblock(w)
	}
}

func (w *WaitGroup) Done() { w.Add(-1) }

func (w *WaitGroup) Wait() {
	s := vsched.Cur()
	if s == nil {
		w.real.Wait()
		return
	}
	s.Yield("Wait")
	for w.n > 0 {
		s.Block(w, "Wait(blocked)")
	}
}

// Go mirrors sync.WaitGroup.Go (Go 1.25).
func (w *WaitGroup) Go(f func()) {
	w.Add(1)
	vsched.Go(func() {
		defer w.Done()
		f()
	})
}

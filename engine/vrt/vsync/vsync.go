// Package vsync mirrors the API of package sync. Mutex and RWMutex are
// scheduling points of the controlled scheduler when one is active and plain
// sync primitives otherwise. The RWMutex model is deliberately more permissive
// than Go's (a waiting writer does not block new readers): explored
// behaviours are a superset of the real ones.
package vsync

import (
	"sync"

	"github.com/Vedant9500/WTF/internal/zzvrt/vsched"
)

type (
	Once      = sync.Once
	Pool      = sync.Pool
	Map       = sync.Map
	Cond      = sync.Cond
	Locker    = sync.Locker
)

func NewCond(l Locker) *Cond { return sync.NewCond(l) }

func OnceFunc(f func()) func() { return sync.OnceFunc(f) }

type Mutex struct {
	real sync.Mutex
	held bool
}

func (m *Mutex) Lock() {
	s := vsched.Cur()
	if s == nil {
		m.real.Lock()
		return
	}
	s.Yield("Lock")
	for m.held {
		s.Block(m, "Lock(blocked)")
	}
	m.held = true
}

func (m *Mutex) TryLock() bool {
	s := vsched.Cur()
	if s == nil {
		return m.real.TryLock()
	}
	s.Yield("TryLock")
	if m.held {
		return false
	}
	m.held = true
	return true
}

func (m *Mutex) Unlock() {
	s := vsched.Cur()
	if s == nil {
		m.real.Unlock()
		return
	}
	if !m.held {
		panic("sync: unlock of unlocked mutex")
	}
	m.held = false
	s.Unblock(m)
}

type RWMutex struct {
	real    sync.RWMutex
	writer  bool
	readers int
}

func (m *RWMutex) Lock() {
	s := vsched.Cur()
	if s == nil {
		m.real.Lock()
		return
	}
	s.Yield("Lock")
	for m.writer || m.readers > 0 {
		s.Block(m, "Lock(blocked)")
	}
	m.writer = true
}

func (m *RWMutex) TryLock() bool {
	s := vsched.Cur()
	if s == nil {
		return m.real.TryLock()
	}
	s.Yield("TryLock")
	if m.writer || m.readers > 0 {
		return false
	}
	m.writer = true
	return true
}

func (m *RWMutex) Unlock() {
	s := vsched.Cur()
	if s == nil {
		m.real.Unlock()
		return
	}
	if !m.writer {
		panic("sync: Unlock of unlocked RWMutex")
	}
	m.writer = false
	s.Unblock(m)
}

func (m *RWMutex) RLock() {
	s := vsched.Cur()
	if s == nil {
		m.real.RLock()
		return
	}
	s.Yield("RLock")
	for m.writer {
		s.Block(m, "RLock(blocked)")
	}
	m.readers++
}

func (m *RWMutex) TryRLock() bool {
	s := vsched.Cur()
	if s == nil {
		return m.real.TryRLock()
	}
	s.Yield("TryRLock")
	if m.writer {
		return false
	}
	m.readers++
	return true
}

func (m *RWMutex) RUnlock() {
	s := vsched.Cur()
	if s == nil {
		m.real.RUnlock()
		return
	}
	if m.readers <= 0 {
		panic("sync: RUnlock of unlocked RWMutex")
	}
	m.readers--
	if m.readers == 0 {
		s.Unblock(m)
	}
}

func (m *RWMutex) RLocker() Locker { return (*rlocker)(m) }

type rlocker RWMutex

func (r *rlocker) Lock()   { (*RWMutex)(r).RLock() }
func (r *rlocker) Unlock() { (*RWMutex)(r).RUnlock() }

// WaitGroup: Wait blocks under the controlled scheduler until the counter is
// zero; Add / Done are plain bookkeeping there (only one thread runs at a time).
type WaitGroup struct {
	real sync.WaitGroup
	n    int
}

func (w *WaitGroup) Add(delta int) {
	s := vsched.Cur()
	if s == nil {
		w.real.Add(delta)
		return
	}
	w.n += delta
	if w.n < 0 {
		panic("sync: negative WaitGroup counter")
	}
	if w.n == 0 {
		s.Unblock(w)
	}
}

func (w *WaitGroup) Done() { w.Add(-1) }

func (w *WaitGroup) Wait() {
	s := vsched.Cur()
	if s == nil {
		w.real.Wait()
		return
	}
	s.Yield("Wait")
	for w.n > 0 {
		s.Block(w, "Wait(blocked)")
	}
}

// Go mirrors sync.WaitGroup.Go (Go 1.25).
func (w *WaitGroup) Go(f func()) {
	w.Add(1)
	vsched.Go(func() {
		defer w.Done()
		f()
	})
}

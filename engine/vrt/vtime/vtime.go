// Package vtime is the virtual clock seam. vinstr rewrites the selectors
// time.Now / Since / Until / Sleep in the code under test to this package.
// With the virtual clock off (default) everything passes through to package
// time, so the same instrumented build serves CLI binaries and harnesses.
package vtime

import (
	"sync"
	"sync/atomic"
	"time"
)

var (
	virtual atomic.Bool
	nowNs   atomic.Int64
	mu      sync.Mutex
	sleeps  []time.Duration
	// AutoTick, when >0, advances the virtual clock by that much on every Now().
	autoTick atomic.Int64
)

// Base is the virtual epoch (a fixed, round instant).
var Base = time.Date(2030, 1, 1, 0, 0, 0, 0, time.UTC)

// Enable switches the virtual clock on, reset to Base.
func Enable() {
	nowNs.Store(0)
	autoTick.Store(0)
	mu.Lock()
	sleeps = nil
	mu.Unlock()
	virtual.Store(true)
}

// Disable returns to the real clock.
func Disable() { virtual.Store(false) }

// SetAutoTick makes every Now() advance the clock by d afterwards.
func SetAutoTick(d time.Duration) { autoTick.Store(int64(d)) }

// Advance moves the virtual clock forward.
func Advance(d time.Duration) { nowNs.Add(int64(d)) }

// Offset returns the virtual time elapsed since Base.
func Offset() time.Duration { return time.Duration(nowNs.Load()) }

// Sleeps returns (and clears) the log of virtual sleeps.
func Sleeps() []time.Duration {
	mu.Lock()
	defer mu.Unlock()
	s := sleeps
	sleeps = nil
	return s
}

func Now() time.Time {
	if !virtual.Load() {
		return time.Now()
	}
	t := Base.Add(time.Duration(nowNs.Load()))
	if a := autoTick.Load(); a > 0 {
		nowNs.Add(a)
	}
	return t
}

func Since(t time.Time) time.Duration {
	if !virtual.Load() {
		return time.Since(t)
	}
	return Now().Sub(t)
}

func Until(t time.Time) time.Duration {
	if !virtual.Load() {
		return time.Until(t)
	}
	return t.Sub(Now())
}

func Sleep(d time.Duration) {
	if !virtual.Load() {
		time.Sleep(d)
		return
	}
	mu.Lock()
	sleeps = append(sleeps, d)
	mu.Unlock()
	if d > 0 {
		nowNs.Add(int64(d))
	}
}

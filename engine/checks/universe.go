package checks

import (
	"fmt"
	"math"
	"os"
	"path/filepath"
	"sort"
	"strings"
	"unicode"
	"unsafe"

	"github.com/Vedant9500/WTF/internal/database"
	"github.com/Vedant9500/WTF/internal/nlp"
	"github.com/Vedant9500/WTF/zzverif/lib"
	"gopkg.in/yaml.v3"
)

// Shared building blocks of engine E2 (DESIGN.md §3): the word alphabet, the
// entry pool, database construction through the real loader, result digests
// and the reference predicates several properties share.

type Cmd = database.Command
type Opts = database.SearchOptions

// uWords is the word alphabet W: one word per shortcut visible in the code.
var uWords = []string{
	"compress", "find", "files", "folder", "the", "x", "git", "dir", "tar", "qzx",
	"install", "grep", "ls", "Git", "COMPRESS", "tar-x", "a.b", "café", "comprss", "list", "control", "version",
}

// uPool is the entry pool P. Entries collide on purpose (same token in
// different fields, duplicates, equal scores, every platform shape on a
// whitelisted tool and on a non-tool, pipelines of every kind).
func uPool() []Cmd {
	long := strings.TrimSpace(strings.Repeat("lorem ipsum dolor sit amet consectetur ", 9)) + " compress git files"
	return []Cmd{
		/* 0*/ {Command: "git commit -m msg", Description: "Record changes to the repository", Keywords: []string{"git", "commit", "save"}, Tags: []string{"vcs"}, Niche: "git"},
		/* 1*/ {Command: "git commit -m msg", Description: "Record changes to the repository", Keywords: []string{"git", "commit", "save"}, Tags: []string{"vcs"}, Niche: "git"},
		/* 2*/ {Command: "git status", Description: "Show the working tree status", Keywords: []string{"git", "status"}, Platform: []string{"linux"}},
		/* 3*/ {Command: "git log", Description: "Show commit logs", Keywords: []string{"git", "log", "history"}, Platform: []string{"windows"}},
		/* 4*/ {Command: "tar -czf archive.tar.gz dir", Description: "Compress a directory into a tar archive", Keywords: []string{"compress", "tar", "archive", "folder"}},
		/* 5*/ {Command: "zip -r out.zip folder", Description: "Compress files into a zip archive", Keywords: []string{"compress", "zip", "files"}, Platform: []string{"cross-platform"}},
		/* 6*/ {Command: "find . -name '*.txt'", Description: "Find files by name", Keywords: []string{"find", "files", "search"}, Platform: []string{"linux", "macos"}},
		/* 7*/ {Command: "dir", Description: "List files in a folder", Keywords: []string{"list", "files", "dir"}, Platform: []string{"windows"}},
		/* 8*/ {Command: "ls -la", Description: "List files in a directory", Keywords: []string{"list", "files", "ls"}, Platform: []string{"linux"}},
		/* 9*/ {Command: "qzx run", Description: "Qzx does things with files", Keywords: []string{"qzx"}, Platform: []string{"windows"}},
		/*10*/ {Command: "qzx open", Description: "Qzx opens files", Keywords: []string{"qzx"}, Platform: []string{"macos"}},
		/*11*/ {Command: "qzx start", Description: "Qzx on darwin lists files", Keywords: []string{"qzx"}, Platform: []string{"darwin"}},
		/*12*/ {Command: "Get-ChildItem", Description: "List files with PowerShell", Keywords: []string{"list", "files"}, Platform: []string{"PowerShell"}},
		/*13*/ {Command: "qzx unix", Description: "Qzx for unix files", Keywords: []string{"qzx"}, Platform: []string{"unix"}},
		/*14*/ {Command: "qzx both", Description: "Qzx for two systems files", Keywords: []string{"qzx"}, Platform: []string{"linux", "windows"}},
		/*15*/ {Command: "qzx bsd", Description: "Qzx for bsd files", Keywords: []string{"qzx"}, Platform: []string{"bsd"}},
		/*16*/ {Command: "qzx cp", Description: "Qzx everywhere files", Keywords: []string{"qzx"}, Platform: []string{"Cross-Platform"}},
		/*17*/ {Command: "grep -r pattern . | wc -l", Description: "Count matching lines in files", Keywords: []string{"grep", "count", "search"}},
		/*18*/ {Command: "make build && make install", Description: "Build and install", Keywords: []string{"install", "build"}},
		/*19*/ {Command: "sort data", Description: "Sort lines of files", Keywords: []string{"sort"}, Pipeline: true},
		/*20*/ {Command: "INSTALL Package", Description: "INSTALL A Package With APT", Keywords: []string{"Install", "APT"}},
		/*21*/ {Command: "compress", Description: ""},
		/*22*/ {Command: "files files files", Description: "files files", Keywords: []string{"files"}},
		/*23*/ {Command: "echo x", Description: long, Keywords: []string{"echo"}},
		/*24*/ {Command: "mkdir -p path/to/dir", Description: "Create a directory and parents", Keywords: []string{"create", "directory", "folder", "mkdir"}},
		/*25*/ {Command: "café au lait", Description: "Serve café to the folder", Keywords: []string{"café"}, Tags: []string{"Drinks", "git"}},
		/*26*/ {Command: "svn checkout url", Description: "Check out a working copy", Keywords: []string{"version control", "source code", "list"}, Tags: []string{"file management", "vcs tool"}},
		/*27*/ {Command: "rsync -av src/ dst/", Description: "Mirror a folder", Keywords: []string{"copy-files fast", "a.b sync", "backup  files"}, Tags: []string{"Version Control"}},
		/*28*/ {Command: "sudo docker ps", Description: "List files of containers as root", Keywords: []string{"docker", "list"}, Platform: []string{"windows"}},
		/*29*/ {Command: "gitk --all", Description: "Browse git files history", Keywords: []string{"git", "history"}, Platform: []string{"windows"}},
		/*30*/ {Command: "nohup find / -name core", Description: "Find core files in the background", Keywords: []string{"find", "files"}, Platform: []string{"macos"}},
		// extras beyond the core pool (uPoolCore): used by index by the checks that need them
		/*31*/ {Command: "./serve files > out.log 2>&1 &", Description: "Serve files in the background, output to a log", Keywords: []string{"files", "list"}},
	}
}

// uPoolCore: the entries that the subset enumerations (C01, C03) and the 40-entry database draw from.
const uPoolCore = 31

// uBuildDB writes cmds as YAML and loads them with the real loader, so the
// database is exactly what the tool builds (lower-cased copies, inverted
// index, re-ranker).
func uBuildDB(dir string, cmds []Cmd) (*database.Database, error) {
	b, err := yaml.Marshal(cmds)
	if err != nil {
		return nil, err
	}
	if len(cmds) == 0 {
		b = []byte("[]\n")
	}
	p := filepath.Join(dir, "db.yml")
	if err := os.WriteFile(p, b, 0o644); err != nil {
		return nil, err
	}
	return database.LoadDatabase(p)
}

func uMustDB(c *lib.Ctx, cmds []Cmd) *database.Database {
	db, err := uBuildDB(c.Scratch, cmds)
	if err != nil {
		c.Fail("cannot build database of %d pool entries through LoadDatabase: %v", len(cmds), err)
		return &database.Database{}
	}
	return db
}

// uPick returns the pool entries with the given indices.
func uPick(pool []Cmd, idx []int) []Cmd {
	out := make([]Cmd, len(idx))
	for i, j := range idx {
		out[i] = pool[j]
	}
	return out
}

// uSubsets enumerates all subsets of {0..n-1} of size 1..k in a fixed order
// (by size, then lexicographic).
func uSubsets(n, k int) [][]int {
	var out [][]int
	var rec func(start int, cur []int, size int)
	rec = func(start int, cur []int, size int) {
		if len(cur) == size {
			out = append(out, append([]int{}, cur...))
			return
		}
		for i := start; i < n; i++ {
			rec(i+1, append(cur, i), size)
		}
	}
	for s := 1; s <= k; s++ {
		rec(0, nil, s)
	}
	return out
}

// uSequences enumerates all sequences of length 1..k over {0..n-1}.
func uSequences(n, k int) [][]int {
	var out [][]int
	var rec func(cur []int, size int)
	rec = func(cur []int, size int) {
		if len(cur) == size {
			out = append(out, append([]int{}, cur...))
			return
		}
		for i := 0; i < n; i++ {
			rec(append(cur, i), size)
		}
	}
	for s := 1; s <= k; s++ {
		rec(nil, s)
	}
	return out
}

// uQueries: all sequences of 1..k words of ws joined by one space.
func uQueries(ws []string, k int) []string {
	var out []string
	for _, s := range uSequences(len(ws), k) {
		parts := make([]string, len(s))
		for i, j := range s {
			parts[i] = ws[j]
		}
		out = append(out, strings.Join(parts, " "))
	}
	return out
}

var uSpecialQueries = []string{
	"", " ", "   \t ", "...", "-", "?!", "c", "\x00", "\xff\xfe", "zi\x00", " git ", "git  files",
	strings.Repeat("a", 1000), "compress files folder git tar find install list grep ls dir", "a b c d",
}

// uSpecialDBs are the fixed special databases: 1 entry, 12 identical entries,
// 40 entries (pool + variants).
func uIdentical(n int) []Cmd {
	out := make([]Cmd, n)
	for i := range out {
		out[i] = Cmd{Command: "git push", Description: "Push files to the remote", Keywords: []string{"git", "push", "files"}}
	}
	return out
}

func uForty() []Cmd {
	pool := uPool()
	out := append([]Cmd{}, pool...)
	for i := 0; len(out) < 40; i++ {
		e := pool[(i*7+4)%uPoolCore]
		e.Command = fmt.Sprintf("%s --v%d", e.Command, i)
		e.Description = e.Description + " compress files git"
		out = append(out, e)
	}
	return out
}

// ---------------------------------------------------------------- results

// resItem is one result in index/score-bits form.
type resItem struct {
	Idx   int     `json:"idx"`
	Score float64 `json:"score"`
}

// uIndexOf returns the position of p in db.Commands or -1.
func uIndexOf(db *database.Database, p *Cmd) int {
	if p == nil || len(db.Commands) == 0 {
		return -1
	}
	base := uintptr(unsafe.Pointer(&db.Commands[0]))
	q := uintptr(unsafe.Pointer(p))
	sz := unsafe.Sizeof(db.Commands[0])
	if q < base || (q-base)%sz != 0 {
		return -1
	}
	i := int((q - base) / sz)
	if i >= len(db.Commands) {
		return -1
	}
	return i
}

func uItems(db *database.Database, rs []database.SearchResult) []resItem {
	out := make([]resItem, len(rs))
	for i, r := range rs {
		out[i] = resItem{uIndexOf(db, r.Command), r.Score}
	}
	return out
}

// uDigest is an exact rendering (indices and score bits).
func uDigest(items []resItem) string {
	var sb strings.Builder
	for _, it := range items {
		fmt.Fprintf(&sb, "%d:%016x;", it.Idx, math.Float64bits(it.Score))
	}
	return sb.String()
}

func uSetOf(items []resItem) map[int]bool {
	m := map[int]bool{}
	for _, it := range items {
		m[it.Idx] = true
	}
	return m
}

func uSortedIdx(items []resItem) []int {
	var out []int
	for _, it := range items {
		out = append(out, it.Idx)
	}
	sort.Ints(out)
	return out
}

// uWellFormed is the C01 predicate on one answer. bound<0 = no bound.
func uWellFormed(items []resItem, bound int) string {
	if bound >= 0 && len(items) > bound {
		return fmt.Sprintf("%d results exceed the limit in force %d", len(items), bound)
	}
	seen := map[int]bool{}
	for i, it := range items {
		if it.Idx < 0 {
			return fmt.Sprintf("result %d is not an entry of the searched database", i)
		}
		if seen[it.Idx] {
			return fmt.Sprintf("entry %d appears twice", it.Idx)
		}
		seen[it.Idx] = true
		if math.IsNaN(it.Score) || math.IsInf(it.Score, 0) || it.Score < 0 {
			return fmt.Sprintf("score %v of result %d is not a finite non-negative number", it.Score, i)
		}
		if i > 0 && it.Score > items[i-1].Score {
			return fmt.Sprintf("scores not in non-increasing order at position %d (%v after %v)", i, it.Score, items[i-1].Score)
		}
	}
	return ""
}

// ---------------------------------------------------------------- reference predicates

// refTokens is the reference tokenizer: the repository's exported normaliser
// and stop-word table composed with my own splitting.
func refTokens(s string) []string {
	if s == "" {
		return nil
	}
	s = strings.ToLower(nlp.NormalizeText(strings.ToLower(s))) // lower-case first, as the tool does since 065e7ba
	var out []string
	for _, w := range strings.FieldsFunc(s, func(r rune) bool { return !unicode.IsLetter(r) && !unicode.IsNumber(r) }) {
		if len(w) < 2 || refStop[w] {
			continue
		}
		out = append(out, w)
	}
	return out
}

var refStop = nlp.StopWords()

// refFieldTokens tokenizes the four fields of an entry; every keyword and tag
// is tokenized separately.
func refFieldTokens(e *Cmd) (cmd, desc, keys, tags []string) {
	cmd = refTokens(e.Command)
	desc = refTokens(e.Description)
	for _, k := range e.Keywords {
		keys = append(keys, refTokens(k)...)
	}
	for _, t := range e.Tags {
		tags = append(tags, refTokens(t)...)
	}
	return
}

func refContains(e *Cmd, word string) bool {
	a, b, c, d := refFieldTokens(e)
	for _, l := range [][]string{a, b, c, d} {
		for _, t := range l {
			if t == word {
				return true
			}
		}
	}
	return false
}

// refIsPipeline is the statement's notion of a pipeline command as the code
// documents it (flag, |, &&, >>, "pipe").
func refIsPipeline(e *Cmd) bool {
	c := e.Command
	return e.Pipeline || strings.Contains(c, "|") || strings.Contains(c, "&&") || strings.Contains(c, ">>") ||
		strings.Contains(strings.ToLower(c), "pipe")
}

// refHostPlatform maps a GOOS value to the platform name used in databases.
func refHostPlatform(goos string) string {
	if goos == "darwin" {
		return "macos"
	}
	return goos
}

// refAliases: unambiguous aliases only (DESIGN C04).
var refAliases = map[string][]string{
	"macos":   {"darwin"},
	"windows": {"powershell", "cmd"},
	"linux":   {"unix", "bash"},
}

// refToolFirstWords: the pool uses only these whitelisted tools.
var refTools = map[string]bool{"git": true, "docker": true, "tar": true, "zip": true, "find": true, "grep": true, "ls": true}

func refIsTool(e *Cmd) bool {
	f := strings.Fields(strings.ToLower(e.Command))
	return len(f) > 0 && refTools[f[0]]
}

// refEligible is the C04 reference predicate.
func refEligible(e *Cmd, o Opts, goos string) bool {
	if o.AllPlatforms || len(e.Platform) == 0 {
		return true
	}
	inForce := []string{refHostPlatform(goos)}
	if len(o.Platforms) > 0 {
		inForce = nil
		for _, p := range o.Platforms {
			inForce = append(inForce, strings.ToLower(p))
		}
	}
	match, cross := false, false
	for _, p := range e.Platform {
		pl := strings.ToLower(p)
		if pl == "cross-platform" {
			cross = true
		}
		for _, f := range inForce {
			if pl == f {
				match = true
			}
			for _, a := range refAliases[f] {
				if pl == a {
					match = true
				}
			}
			if f == "cross-platform" && pl == "cross-platform" {
				match = true
			}
		}
	}
	if o.NoCrossPlatform {
		return match
	}
	return match || cross || refIsTool(e)
}

// uOptsString renders options compactly for replay files.
func uOptsString(o Opts) string {
	return fmt.Sprintf("%+v", o)
}

package checks

import (
	"encoding/json"
	"fmt"
	"os"
	"path/filepath"
	"strings"
	"syscall"
	"time"

	"github.com/Vedant9500/WTF/internal/database"
	"github.com/Vedant9500/WTF/internal/recovery"
	"github.com/Vedant9500/WTF/internal/zzvrt/vos"
	"github.com/Vedant9500/WTF/internal/zzvrt/vtime"
	"github.com/Vedant9500/WTF/zzverif/lib"
)

// C15 — loading always ends with a usable database, without futile retries.
// Engine E5 (read-side fault scripts): every combination of per-attempt
// answers for the main, personal and backup files x every retry
// configuration; attempts are counted at the file-read seam, sleeps are
// virtual.

// answers of the file-read seam
const (
	aOK      = "ok"
	aOKEmpty = "ok-empty-list"
	aZero    = "zero-bytes"
	aENOENT  = "ENOENT"
	aEACCES  = "EACCES"
	aEISDIR  = "EISDIR"
	aEIO     = "EIO"
	aBadYAML = "malformed"
	aWrong   = "wrong-shape"
	aAbsent  = "absent" // = ENOENT, named for personal / backup
)

type c15Case struct {
	Main     []string `json:"main_answers"`     // per attempt; the last one repeats
	Personal []string `json:"personal_answers"` // per attempt; the last one repeats
	Backup   string   `json:"backup"`
	Max      int      `json:"max_attempts"`
	BaseMs   float64  `json:"base_delay_ms"`
	Factor   float64  `json:"backoff_factor"`
	MaxMs    float64  `json:"max_delay_ms"`
	// Reuse: the recovery object has already performed one load under the same script (a long-lived
	// caller loads again): the second load must behave like the first of a fresh object.
	Reuse bool `json:"second_load_on_the_same_object,omitempty"`
}

var c15MainCmds = []Cmd{{Command: "git status", Description: "Show status", Keywords: []string{"git"}}, {Command: "ls -la", Description: "List files", Keywords: []string{"list", "files"}}}
var c15PersCmds = []Cmd{{Command: "my-tool run", Description: "Personal list helper", Keywords: []string{"mine"}}}
var c15BackCmds = []Cmd{{Command: "backup-cmd", Description: "From the backup list", Keywords: []string{"backup"}}}

func answerAt(script []string, attempt int) string {
	if attempt < 1 {
		attempt = 1
	}
	if attempt > len(script) {
		return script[len(script)-1]
	}
	return script[attempt-1]
}

func c15Content(kind string, cmds []Cmd) ([]byte, error) {
	pe := func(e syscall.Errno, op string) error { return &os.PathError{Op: op, Path: "x", Err: e} }
	switch kind {
	case aOK:
		b, _ := yamlBytes(cmds)
		return b, nil
	case aOKEmpty:
		return []byte("[]\n"), nil
	case aZero:
		return []byte{}, nil
	case aENOENT, aAbsent:
		return nil, pe(syscall.ENOENT, "open")
	case aEACCES:
		return nil, pe(syscall.EACCES, "open")
	case aEISDIR:
		return nil, pe(syscall.EISDIR, "read")
	case aEIO:
		return nil, pe(syscall.EIO, "read")
	case aBadYAML:
		return []byte("- command: \"unterminated\n  description: x\n"), nil
	case aWrong:
		return []byte("command: not-a-list\ndescription: a map\n"), nil
	}
	return nil, fmt.Errorf("bad answer kind %q", kind)
}

func yamlBytes(cmds []Cmd) ([]byte, error) {
	p := filepath.Join(os.TempDir(), fmt.Sprintf("verif-c15-%d.yml", os.Getpid()))
	defer os.Remove(p)
	if err := writeYAML(p, cmds); err != nil {
		return nil, err
	}
	return os.ReadFile(p)
}

func isLoadable(kind string) bool { return kind == aOK || kind == aOKEmpty || kind == aZero }

func cmdNames(cs []Cmd) string {
	var s []string
	for _, c := range cs {
		s = append(s, c.Command)
	}
	return strings.Join(s, "|")
}

func c15Eval(cs c15Case) (*lib.Violation, string) {
	mainP, persP := "/verif-virtual/main.yml", "/verif-virtual/personal.yml"
	backP := mainP + ".backup"
	h := vos.NewHooks()
	h.Read = func(op, path string, attempt int) ([]byte, error, bool) {
		switch path {
		case mainP:
			d, err := c15Content(answerAt(cs.Main, attempt), c15MainCmds)
			return d, err, true
		case persP:
			d, err := c15Content(answerAt(cs.Personal, attempt), c15PersCmds)
			return d, err, true
		case backP:
			d, err := c15Content(cs.Backup, c15BackCmds)
			return d, err, true
		}
		return nil, nil, false
	}
	// Stat of a scripted path succeeds iff the answer is not an error; the real
	// stat would fail on the virtual path, so emulate it fully here.
	vos.Install(h)
	vtime.Enable()
	defer vos.Install(nil)
	defer vtime.Disable()
	cfg := recovery.RetryConfig{MaxAttempts: cs.Max, BaseDelay: time.Duration(cs.BaseMs * float64(time.Millisecond)),
		MaxDelay: time.Duration(cs.MaxMs * float64(time.Millisecond)), BackoffFactor: cs.Factor}
	var db *database.Database
	var err error
	var pv any
	func() {
		defer func() { pv = recover() }()
		dr := recovery.NewDatabaseRecovery(cfg)
		if cs.Reuse {
			dr.LoadDatabaseWithFallback(mainP, persP)
			// same script again from its first answer, fresh attempt counters and sleep log
			h2 := vos.NewHooks()
			h2.Read = h.Read
			h = h2
			vos.Install(h)
			vtime.Disable()
			vtime.Enable()
		}
		db, err = dr.LoadDatabaseWithFallback(mainP, persP)
	}()
	sleeps := vtime.Sleeps()
	attempts := h.Attempts["ReadFile "+mainP] + h.Attempts["Open "+mainP] // whichever way the loader reads the file
	obs := fmt.Sprintf("attempts=%d sleeps=%v err=%v", attempts, sleeps, err != nil)
	mk := func(key, what string) (*lib.Violation, string) {
		return &lib.Violation{Key: key, What: what, Case: cs, Observed: obs}, obs
	}
	if pv != nil {
		return mk("panic", fmt.Sprintf("LoadDatabaseWithFallback panicked: %v", pv))
	}
	if db == nil || err != nil {
		k := "no-database"
		if cs.Max <= 0 {
			k = "no-database:max-attempts<=0"
		}
		return mk(k, fmt.Sprintf("loading must end with a searchable database and no error; got db==nil:%v err=%v", db == nil, err))
	}
	obs += " db=" + cmdNames(db.Commands)
	func() {
		defer func() { pv = recover() }()
		db.SearchUniversal("list files", Opts{Limit: 3, UseNLP: true, UseFuzzy: true})
	}()
	if pv != nil {
		return mk("unsearchable", fmt.Sprintf("searching the returned database panicked: %v", pv))
	}
	allowed := cs.Max
	if allowed < 1 {
		allowed = 1
	}
	emptyOK := false
	for k := 1; k <= allowed; k++ {
		if m := answerAt(cs.Main, k); isLoadable(m) && m != aOK {
			emptyOK = true // some permitted attempt reads the main file as an empty list
		}
	}
	if len(db.Commands) == 0 && !emptyOK {
		return mk("empty-database", "the returned database is empty although no permitted attempt reads the main file as an empty list")
	}
	// what the real database would be when the main file is read for the k-th and the notebook for the j-th time
	// (the notebook is only read in rounds whose main read succeeded, so j <= k; j == k on the first round)
	realAtJ := func(k, j int) (string, bool) {
		m, p := answerAt(cs.Main, k), answerAt(cs.Personal, j)
		if !isLoadable(m) {
			return "", false
		}
		var cmds []Cmd
		if m == aOK {
			cmds = append(cmds, c15MainCmds...)
		}
		switch {
		case p == aAbsent:
		case p == aOK:
			cmds = append(cmds, c15PersCmds...)
		case isLoadable(p):
		default:
			return "", false
		}
		return cmdNames(cmds), true
	}
	realAt := func(k int) (string, bool) { return realAtJ(k, k) }
	got := cmdNames(db.Commands)
	if want, ok := realAt(1); ok {
		if got != want {
			return mk("not-the-real-database", fmt.Sprintf("main file loads and the notebook loads or is absent, so the database must be main entries followed by notebook entries (%q); got %q", want, got))
		}
	} else {
		// never the real one on the first attempt: either a later attempt's real database or a built-in / backup fallback
		okLater := false
		allow := cs.Max
		if allow < 1 {
			allow = 1
		}
		for k := 2; k <= allow; k++ {
			for j := 1; j <= k; j++ {
				if want, ok := realAtJ(k, j); ok && got == want {
					okLater = true
				}
			}
		}
		isBackup := cs.Backup == aOK && got == cmdNames(c15BackCmds)
		if !okLater && !isBackup && (strings.Contains(got, "git status") || strings.Contains(got, "my-tool")) {
			return mk("half-loaded-database", fmt.Sprintf("the load failed, yet the returned database %q mixes in entries of the failed files", got))
		}
	}
	// attempts
	allow := cs.Max
	if allow < 1 {
		allow = 1
	}
	first := answerAt(cs.Main, 1)
	firstP := answerAt(cs.Personal, 1)
	once := first == aENOENT || first == aEACCES || (isLoadable(first) && firstP == aEACCES)
	if once && attempts != 1 {
		what := first
		if isLoadable(first) {
			what = "notebook " + firstP
		}
		return mk("futile-retry:"+what, fmt.Sprintf("a missing or permission-denied file (%s) must be tried once; the main file was read %d times with waits %v", what, attempts, sleeps))
	}
	if attempts > allow || attempts < 1 {
		return mk("attempt-count", fmt.Sprintf("main file read %d times, configured maximum %d", attempts, cs.Max))
	}
	if len(sleeps) > attempts-1 && !(attempts == 0) {
		return mk("futile-wait", fmt.Sprintf("%d waits for %d attempts", len(sleeps), attempts))
	}
	for i, s := range sleeps {
		if cs.Factor >= 1 && i > 0 && s < sleeps[i-1] {
			return mk("wait-decreased", fmt.Sprintf("waits %v decrease", sleeps))
		}
		if s > cfg.MaxDelay {
			return mk("wait-exceeds-max", fmt.Sprintf("wait %v exceeds the configured maximum %v", s, cfg.MaxDelay))
		}
		if s < 0 {
			return mk("wait-negative", fmt.Sprintf("negative wait %v", s))
		}
	}
	return nil, obs
}

// c15ScriptsThorough: every main-file script of <=3 answers and every notebook script of <=2 answers
// (the last answer repeats for later attempts).
func c15ScriptsThorough() (mains, personals [][]string, backups []string) {
	ma := []string{aOK, aOKEmpty, aZero, aENOENT, aEACCES, aEISDIR, aEIO, aBadYAML, aWrong}
	for _, s := range uSequences(len(ma), 3) {
		var sc []string
		for _, j := range s {
			sc = append(sc, ma[j])
		}
		// an answer repeated at the end is the shorter script
		if n := len(sc); n > 1 && sc[n-1] == sc[n-2] {
			continue
		}
		mains = append(mains, sc)
	}
	pa := []string{aAbsent, aOK, aOKEmpty, aBadYAML, aEACCES, aEIO, aWrong}
	for _, s := range uSequences(len(pa), 2) {
		var sc []string
		for _, j := range s {
			sc = append(sc, pa[j])
		}
		if n := len(sc); n > 1 && sc[n-1] == sc[n-2] {
			continue
		}
		personals = append(personals, sc)
	}
	backups = []string{aAbsent, aOK, aBadYAML, aOKEmpty, aZero}
	return
}

func c15Scripts() (mains, personals [][]string, backups []string) {
	for _, a := range []string{aOK, aOKEmpty, aZero, aENOENT, aEACCES, aEISDIR, aEIO, aBadYAML, aWrong} {
		mains = append(mains, []string{a})
	}
	for _, f := range []string{aEIO, aBadYAML, aENOENT, aEACCES, aEISDIR} {
		mains = append(mains, []string{f, aOK}, []string{f, f, aOK})
	}
	mains = append(mains, []string{aEIO, aENOENT}, []string{aEIO, aEIO, aEACCES})
	for _, a := range []string{aAbsent, aOK, aOKEmpty, aBadYAML, aEACCES, aEIO, aWrong} {
		personals = append(personals, []string{a})
	}
	personals = append(personals, []string{aEIO, aOK}, []string{aBadYAML, aAbsent}, []string{aEIO, aEACCES})
	backups = []string{aAbsent, aOK, aBadYAML, aOKEmpty, aZero}
	return
}

func c15Run(c *lib.Ctx) {
	mains, personals, backups := c15Scripts()
	// factor 1e6: base x factor^k leaves the int64 range of time.Duration at the third wait
	bases, facs := []float64{0, 1, 100}, []float64{1, 2, 10, 1e6}
	if c.Thorough() {
		mains, personals, backups = c15ScriptsThorough()
		bases, facs = []float64{0, 100}, []float64{1, 2, 1e6}
	}
	var idx int64
	selfCheck := 0
	for _, m := range mains {
		for _, p := range personals {
			for _, b := range backups {
				for _, max := range []int{-1, 0, 1, 2, 3, 5} {
					for _, base := range bases {
						for _, fac := range facs {
							for _, maxd := range []float64{0, 150, 5000} {
								idx++
								if !c.Mine(idx) {
									continue
								}
								if idx%4096 == int64(c.Shard) && c.Expired() {
									return
								}
								cs := c15Case{Main: m, Personal: p, Backup: b, Max: max, BaseMs: base, Factor: fac, MaxMs: maxd}
								v, obs := c15Eval(cs)
								c.Rep.Evaluations++
								if selfCheck < 64 {
									selfCheck++
									if _, o2 := c15Eval(cs); o2 != obs {
										c.Fail("harness nondeterminism on %+v: %q vs %q", cs, obs, o2)
									}
								}
								if v != nil {
									c.Violate(*v)
									continue
								}
								if idx%3 == 0 {
									cs2 := cs
									cs2.Reuse = true
									v2, obs2 := c15Eval(cs2)
									c.Rep.Evaluations++
									c.Count("second_load_on_same_object", 1)
									if v2 == nil && obs2 != obs {
										v2 = &lib.Violation{Key: "second-load-differs", What: "a second load through the same recovery object, under the same file answers, does not behave like the first: " + obs2 + " vs " + obs, Case: cs2, Observed: obs2, Expected: obs}
									}
									if v2 != nil {
										c.Violate(*v2)
										continue
									}
								}
								switch {
								case strings.Contains(obs, "attempts=1 "):
									c.Count("one_attempt", 1)
								default:
									c.Count("several_attempts", 1)
									c.Rep.Nontrivial++
								}
								if strings.Contains(obs, "git status|ls -la|my-tool") {
									c.Count("real_database_with_notebook", 1)
								} else if strings.Contains(obs, "db=git status|ls -la") {
									c.Count("real_database_main_only", 1)
								} else if strings.Contains(obs, "backup-cmd") {
									c.Count("backup_database", 1)
								} else {
									c.Count("builtin_fallback", 1)
								}
								if idx%5000 == 9 {
									c.Sample(map[string]any{"case": cs, "observed": obs})
								}
							}
						}
					}
				}
			}
		}
	}
}

func init() {
	lib.Register(&lib.Check{
		ID: "C15", Level: "fault_enumeration",
		Rule:      "every fault script (thorough: EVERY main-file script of <=3 answers over the 9 answers x every notebook script of <=2 answers over 7, with BaseDelay {0,100ms} x BackoffFactor {1,2,1e6}; quick as follows): main file answers per attempt in {9 stationary answers: ok, ok-empty-list, zero-bytes, ENOENT, EACCES, EISDIR, EIO, malformed, wrong-shape} + {one or two transient faults (EIO, malformed, ENOENT, EACCES, EISDIR) then ok} + {EIO then ENOENT, EIO EIO then EACCES} x personal file {absent, ok, ok-empty, malformed, EACCES, EIO, wrong-shape, EIO then ok, malformed then absent, EIO then EACCES} x backup {absent, ok, malformed, empty list, zero bytes} x retry configuration MaxAttempts {-1,0,1,2,3,5} x BaseDelay {0,1ms,100ms} x BackoffFactor {1,2,10,1e6} x MaxDelay {0,150ms,5s}, each through the real LoadDatabaseWithFallback with answers injected at the file-read seam (vos), attempts counted there and sleeps virtual (vtime). Oracle: non-nil searchable database and nil error always; the real database (main then notebook entries) when the first answers load; never a half-loaded mix; missing / permission-denied tried exactly once; attempts <= max(1, MaxAttempts); waits <= attempts-1, non-decreasing, <= MaxDelay; for every third script also a second load through the SAME recovery object (same answers again): same database, attempts and waits as the first. non-trivial = scripts with more than one attempt",
		Assume:    []string{"faults are injected at os.ReadFile / os.Stat of the three paths (vos seam); other file-system calls are not on this path", "BackoffFactor < 1 is outside the checked domain", "the backup rung is unreachable in the current ladder (the built-in list never fails and comes first); it is enumerated but never answers", "whether a transient fault is retried at all is not demanded (only 'at most')"},
		QuickSecs: 100, ThorSecs: 1500,
		Run: c15Run,
		Replay: func(c *lib.Ctx, raw json.RawMessage) []lib.Violation {
			var cs c15Case
			if json.Unmarshal(raw, &cs) != nil || len(cs.Main) == 0 || len(cs.Personal) == 0 {
				return nil
			}
			if v, _ := c15Eval(cs); v != nil {
				return []lib.Violation{*v}
			}
			return nil
		},
		Finish: func(m *lib.Report, tier string) string {
			for _, k := range []string{"one_attempt", "several_attempts", "real_database_with_notebook", "real_database_main_only", "builtin_fallback"} {
				if m.Counters[k] == 0 {
					return "vacuous: counter " + k + " is zero"
				}
			}
			return ""
		},
	})
}

package checks

import (
	"encoding/json"
	"errors"
	"fmt"
	"io/fs"
	"math"
	"os"
	"path/filepath"
	"runtime"
	"strconv"
	"strings"
	"time"

	"github.com/Vedant9500/WTF/internal/database"
	apperr "github.com/Vedant9500/WTF/internal/errors"
	"github.com/Vedant9500/WTF/internal/recovery"
	"github.com/Vedant9500/WTF/zzverif/lib"
	"gopkg.in/yaml.v3"
)

// C10 — no input crashes the engine.  Engine E2: every concatenation of <=2
// (quick) / <=3 (thorough) atoms of a YAML / binary grammar as database file;
// each is loaded and, if it loads, searched with every query of a hostile
// query alphabet x option corners through every public search entry point,
// suggestions and the recovery searches.

func c10Atoms() []string {
	big := strings.Repeat("lorem ", 11000) // 66 KB scalar
	deep := strings.Repeat("[", 1000)
	bomb := "- &a [x,x,x,x,x,x,x,x,x]\n- &b [*a,*a,*a,*a,*a,*a,*a,*a,*a]\n- &c [*b,*b,*b,*b,*b,*b,*b,*b,*b]\n- &d [*c,*c,*c,*c,*c,*c,*c,*c,*c]\n- &e [*d,*d,*d,*d,*d,*d,*d,*d,*d]\n- &f [*e,*e,*e,*e,*e,*e,*e,*e,*e]\n- &g [*f,*f,*f,*f,*f,*f,*f,*f,*f]\n- &h [*g,*g,*g,*g,*g,*g,*g,*g,*g]\n- &i [*h,*h,*h,*h,*h,*h,*h,*h,*h]\n"
	return []string{
		"- command: zip -r a\n  description: compress files\n  keywords: [zip, compress]\n",
		"- command: \"zip\\0 a\"\n  description: nul inside\n",
		"- command: \"a\\0\"\n  description: \"\\0\"\n  keywords: [\"\\0\", \"\"]\n",
		"- command: ''\n",
		"- {command: x, keywords: [a, b], tags: [t]}\n",
		"- command: x\n  keywords: notalist\n",
		"- command: x\n  keywords:\n    - 1\n    - true\n    - ~\n",
		"- command: x\n  platform: [linux]\n  pipeline: yes\n",
		"- command: x\n  pipeline: maybe\n",
		"- null\n", "- 5\n", "- []\n", "[]\n", "{}\n", "command: x\n", "null\n", "~\n", "", "\n", "---\n", "...\n",
		"---\n- command: second doc\n",
		"# comment\n", "\t- command: tab\n",
		"- command: &a x\n  description: *a\n",
		"- &e {command: anchored}\n- *e\n",
		"- <<: {command: merged}\n  description: m\n",
		bomb,
		"- command: !!binary aGVsbG8=\n", "- command: !!int 5\n", "- command: !!str 5\n", "- !!map {command: tagged}\n", "- command: !unknown x\n",
		"- command: \"\\xff\"\n", "- command: \xff\xfe raw\n", "\xef\xbb\xbf", "- command: a\x00b\n", "- command: \x1b[31m\n",
		"- command: \"", "- command: 'x\n", "- command: [unclosed\n", "- command: {a: b}\n",
		"- command: |\n    multi\n    line\n", "- command: >\n  folded\n  text\n",
		"- command: x\n  unknown_field: 1\n", "- command: x\n  command: y\n",
		"- command: " + big + "\n", deep + "\n",
		"- command: \"a\\u0000b\"\n  description: \"\\e[31m red\"\n",
		"- description: only a description\n",
		"- command: 1e999\n", "- command: 0x1F\n", "- command: 2001-01-01\n", "- command: .inf\n", "- command: y\n",
		"- command: x\n  tags: [a, [b]]\n",
		"- command: \"\\U0001F600 smile\"\n  keywords: [\"\\U0001F600\"]\n",
		"- command: İSTANBUL\n  description: ß ǅ ſ\n",
		"- command: \"a\\tb\"\n", "- command: \"  \"\n", "- command: \"-\"\n",
		"- command: \"x | y && z >> w\"\n  description: pipe\n", "- command: PIPE\n  pipeline: true\n",
		"- command: a.b-c_d\n  description: \"...---...\"\n",
		"- command: zzzzzzzzzzzzzzzzzzzzzzzzzzzzzzzzzzzzzzzzzzzzzzzzzzzzzzzzzzzzzzzzzzzzzzzzzzzzzzzzzzzzzzzzzzzzzzzzzzzzzzzzzzzzz\n",
		"  - command: indented\n", "-command: nospace\n", "- command:x\n", "- : empty key\n", "? complex\n: key\n",
		"- command: dup\n- command: dup\n- command: dup\n",
		// Unicode white space, raw and as YAML escapes (no-break space, next line, line / paragraph separator, ideographic space ...)
		"- command: \"a\\_b\\Nc\\Ld\\Pe\"\n  description: \"x\u00a0y\u3000z\"\n  keywords: [\"k\u2003w\", \"\u205f\"]\n",
		"- command: nb\u00a0sp\u1680og\u202fnn\n  description: \u2028\u2029\n",
		// entries without a command text that declare platforms (foreign to the pinned host, unknown, mixed case)
		"- command: ''\n  description: compress files with zip\n  keywords: [zip, a]\n  platform: [windows]\n",
		"- description: zip without any command x\n  keywords: [zip, x]\n  platform: [Windows, macos]\n- command: \"  \"\n  description: blank zip a\n  platform: [freebsd]\n  tags: [dup]\n",
	}
}

func c10Queries() []string {
	mixed := make([]byte, 1000)
	for i := range mixed {
		mixed[i] = byte(i*37 + 11)
	}
	return []string{
		"zi", "zip", "x", "a", "\x00", "zi\x00", "\xff", strings.Repeat("a", 1000), string(mixed), "?", "-", "...", "İ", "ß", "\U0001F600",
		"a b", " ", "command", "multi line", "\t", "\\", "[", "(?i)a", "zip compress files", "a\x00b", "dup", "\x1b[31m", "",
		"a\u00a0b", "\u3000", "x\u2003y z", "\u0085", "zip\u2028compress", "\u200b", "a\u202fb\u205fc\u1680d",
		// the NLP stage's phrase clues behind bytes whose lower-casing changes their length (invalid UTF-8, U+023A / U+023E)
		// runs of multi-byte letters whose byte and character counts fall on different sides of 32 / 64 / 128
		strings.Repeat("\u0434", 33), strings.Repeat("\u0434", 40), strings.Repeat("\u0434", 65), strings.Repeat("\u8a9e", 22), strings.Repeat("\u8a9e", 43), strings.Repeat("\u8a9e", 64),
		strings.Repeat("\U0001F600", 17), "zip " + strings.Repeat("\u00e9", 50),
		"\xff see the zip without opening", "\xff\xfe\xfd zip WITHOUT EDITING", "\u023a\u023e\u023a\u023e x without opening", "without opening \xff", "\xffwithout editing",
	}
}

type c10Opt struct {
	Name string
	O    Opts
}

func c10Options() []c10Opt {
	return []c10Opt{
		{"zero", Opts{}},
		{"neg-limit-nlp", Opts{Limit: -5, UseNLP: true}},
		{"fuzzy-1", Opts{Limit: 1, UseFuzzy: true}},
		{"nlp-fuzzy-30", Opts{Limit: 3, UseNLP: true, UseFuzzy: true, FuzzyThreshold: -30}},
		{"pipeline-thr1000", Opts{Limit: 1000, UseFuzzy: true, FuzzyThreshold: 1000, PipelineOnly: true, PipelineBoost: -1}},
		{"all-cap1-boosts", Opts{Limit: 2, AllPlatforms: true, TopTermsCap: 1, UseNLP: true, ContextBoosts: map[string]float64{"a": 0, "zip": -3, "x": 1e300}}},
		{"huge-limit", Opts{Limit: math.MaxInt / 2, UseNLP: true, UseFuzzy: true}},
		{"platforms", Opts{Limit: 5, Platforms: []string{"", "\x00", "windows"}, NoCrossPlatform: true, TopTermsCap: -1, FuzzyThreshold: math.MinInt, UseFuzzy: true}},
	}
}

type c10Case struct {
	Atoms   []int  `json:"atoms,omitempty"`
	Special string `json:"special,omitempty"` // missing | directory
	Entry   string `json:"entry,omitempty"`
	Query   string `json:"query_quoted,omitempty"`
	Opt     string `json:"option_corner,omitempty"`
}

func c10Content(atoms []int) string {
	a := c10Atoms()
	var sb strings.Builder
	for _, i := range atoms {
		sb.WriteString(a[i])
	}
	return sb.String()
}

var c10Entries = []string{"SearchUniversal", "Search", "SearchWithPipelineOptions", "SearchWithOptions", "SearchWithFuzzy", "SearchWithNLP", "cached", "GetSuggestions", "recovery"}

func c10Call(db *database.Database, cdb *database.CachedDatabase, entry, q string, o Opts) {
	switch entry {
	case "SearchUniversal":
		db.SearchUniversal(q, o)
	case "Search":
		db.Search(q, o.Limit)
	case "SearchWithPipelineOptions":
		db.SearchWithPipelineOptions(q, o)
	case "SearchWithOptions":
		db.SearchWithOptions(q, o)
	case "SearchWithFuzzy":
		db.SearchWithFuzzy(q, o)
	case "SearchWithNLP":
		db.SearchWithNLP(q, o)
	case "cached":
		cdb.SearchWithOptionsAndCache(q, o)
		cdb.SearchWithOptionsAndCache(q, o)
	case "GetSuggestions":
		db.GetSuggestions(q, o.Limit)
	case "recovery":
		recovery.NewSearchRecovery().RecoverFromSearchFailure(q, nil, db)
	}
}

// guarded runs f with panic recovery and a step budget (watchdog).
func guarded(budget time.Duration, f func()) (panicVal any, timedOut bool) {
	done := make(chan any, 1)
	go func() {
		defer func() { done <- recover() }()
		f()
	}()
	select {
	case r := <-done:
		return r, false
	case <-time.After(budget):
		return nil, true
	}
}

const c10Budget = 20 * time.Second

// c10File checks one file content: load classification, then every search.
// only != nil restricts to one (entry, query, option) triple (replay).
func c10File(dir string, cs c10Case, only *c10Case, count func(string)) []lib.Violation {
	var vs []lib.Violation
	path := filepath.Join(dir, "c10.yml")
	content := ""
	if strings.HasPrefix(cs.Special, "missing:") {
		// a missing file under another name: classification must not depend on what the path looks like
		path = filepath.Join(dir, strings.TrimPrefix(cs.Special, "missing:"))
		cs.Special = "missing"
	}
	switch cs.Special {
	case "missing":
		os.Remove(path)
	case "directory":
		os.Remove(path)
		os.Mkdir(path, 0o755)
		defer os.Remove(path)
	default:
		content = c10Content(cs.Atoms)
		os.Remove(path)
		if err := os.WriteFile(path, []byte(content), 0o644); err != nil {
			return nil
		}
	}
	var db *database.Database
	var err error
	var ms0, ms1 runtime.MemStats
	runtime.ReadMemStats(&ms0)
	pv, to := guarded(c10Budget, func() { db, err = database.LoadDatabase(path) })
	runtime.ReadMemStats(&ms1)
	lc := cs
	lc.Entry = "LoadDatabase"
	if pv != nil {
		return []lib.Violation{{Key: "panic:LoadDatabase", What: fmt.Sprintf("LoadDatabase panicked on a %d-byte file: %v", len(content), pv), Case: lc}}
	}
	if to {
		return []lib.Violation{{Key: "hang:LoadDatabase", What: fmt.Sprintf("LoadDatabase exceeded the step budget (%v) on a %d-byte file", c10Budget, len(content)), Case: lc}}
	}
	if grown := ms1.TotalAlloc - ms0.TotalAlloc; grown > 512<<20 {
		vs = append(vs, lib.Violation{Key: "memory:LoadDatabase", What: fmt.Sprintf("LoadDatabase allocated %d MB for a %d-byte file", grown>>20, len(content)), Case: lc})
	}
	switch cs.Special {
	case "missing":
		var ae *apperr.AppError
		if err == nil || !errors.Is(err, fs.ErrNotExist) || !errors.As(err, &ae) || !strings.Contains(strings.ToLower(ae.Message), "not found") {
			vs = append(vs, lib.Violation{Key: "classify:not-found", What: fmt.Sprintf("a missing file must be reported as not-found; got %v", err), Case: lc})
		}
		count("missing_file")
		return vs
	case "directory":
		if err == nil {
			vs = append(vs, lib.Violation{Key: "classify:directory", What: "loading a directory returned no error", Case: lc})
		}
		count("directory_path")
		return vs
	}
	var ref []Cmd
	refErr := yaml.Unmarshal([]byte(content), &ref)
	if refErr == nil {
		if err != nil {
			vs = append(vs, lib.Violation{Key: "wellformed-rejected", What: fmt.Sprintf("a well-formed list of %d entries does not load: %v", len(ref), err), Case: lc})
			return vs
		}
		if len(db.Commands) != len(ref) {
			vs = append(vs, lib.Violation{Key: "wellformed-entries", What: fmt.Sprintf("well-formed list of %d entries loaded as %d", len(ref), len(db.Commands)), Case: lc})
		}
		count("loaded")
	} else {
		var ae *apperr.AppError
		if err == nil {
			vs = append(vs, lib.Violation{Key: "classify:parse", What: fmt.Sprintf("content that does not decode as a list of entries (%v) loaded without error", refErr), Case: lc})
		} else if !errors.As(err, &ae) || !(strings.Contains(strings.ToLower(ae.Message), "parse") || strings.Contains(strings.ToLower(ae.UserMessage), "invalid data")) {
			vs = append(vs, lib.Violation{Key: "classify:parse", What: fmt.Sprintf("undecodable content must be reported as a parse error; got %T %v", err, err), Case: lc})
		}
		count("rejected")
		return vs
	}
	if db == nil {
		return vs
	}
	cdb := database.NewCachedDatabase(db)
	seenKey := map[string]bool{}
	for _, en := range c10Entries {
		for _, q := range c10Queries() {
			for _, oc := range c10Options() {
				if only != nil && (only.Entry != en || only.Query != strconv.Quote(q) || only.Opt != oc.Name) {
					continue
				}
				if en == "Search" && oc.Name != "zero" && oc.Name != "huge-limit" && oc.Name != "neg-limit-nlp" {
					continue
				}
				o := oc.O
				pv, to := guarded(c10Budget, func() { c10Call(db, cdb, en, q, o) })
				count("calls")
				if to {
					count("hangs")
				}
				if pv == nil && !to {
					continue
				}
				cc := cs
				cc.Entry, cc.Query, cc.Opt = en, strconv.Quote(q), oc.Name
				kind := "panic"
				what := fmt.Sprintf("%s(%s, %s) on a %d-entry database panicked: %v", en, truncStr(strconv.Quote(q), 40), oc.Name, len(db.Commands), pv)
				if to {
					kind = "hang"
					what = fmt.Sprintf("%s(%s, %s) exceeded the step budget", en, truncStr(strconv.Quote(q), 40), oc.Name)
				}
				cause := fmt.Sprint(pv)
				if i := strings.Index(cause, " ["); i > 0 {
					cause = cause[:i]
				}
				if len(cause) > 50 {
					cause = cause[:50]
				}
				key := kind + ":" + en + ":" + cause
				if strings.Contains(oc.Name, "huge-limit") {
					key += ":huge-limit"
				}
				if seenKey[key] {
					continue
				}
				seenKey[key] = true
				vs = append(vs, lib.Violation{Key: key, What: what, Case: cc})
				if to {
					return vs // the hung call keeps spinning: no further calls in this process
				}
			}
		}
	}
	return vs
}

func c10Run(c *lib.Ctx) {
	depth := 2
	if c.Thorough() {
		depth = 3
	}
	n := len(c10Atoms())
	seqs := uSequences(n, depth)
	count := func(k string) { c.Count(k, 1) }
	if c.Shard == 0 {
		for _, sp := range []string{"missing", "directory", "missing:commands.yaml", "missing:unmarshal-notes.yml", "missing:permission denied.yml", "missing:my yaml: files.yml", "missing:a/b/c.yaml"} {
			for _, v := range c10File(c.Scratch, c10Case{Special: sp}, nil, count) {
				c.Violate(v)
			}
			c.Rep.Evaluations++
		}
	}
	for si, s := range seqs {
		if !c.Mine(int64(si)) {
			continue
		}
		if c.Expired() {
			return
		}
		cs := c10Case{Atoms: s}
		before := c.Rep.Counters["calls"]
		vs := c10File(c.Scratch, cs, nil, count)
		c.Rep.Evaluations += 1 + c.Rep.Counters["calls"] - before
		if c.Rep.Counters["calls"] > before {
			c.Rep.Nontrivial++
		}
		for _, v := range vs {
			c.Violate(v)
		}
		hung := c.Rep.Counters["hangs"] > 0
		for _, v := range vs {
			if strings.HasPrefix(v.Key, "hang:") {
				hung = true
			}
		}
		if hung {
			// the hung call keeps spinning in this process: report and stop this worker
			c.Rep.Exhaustive = false
			c.Rep.Cap = "worker stopped after a call exceeded the step budget"
			return
		}
		if si%997 == 5 {
			c.Sample(map[string]any{"file_atoms": s, "bytes": len(c10Content(s)), "search_calls": c.Rep.Counters["calls"] - before})
		}
	}
}

func init() {
	lib.Register(&lib.Check{
		ID: "C10", Level: "model_checking",
		Rule:      "every concatenation of <=2 (quick) / <=3 (thorough) atoms of an 80-atom YAML/binary grammar (entries with right and wrong field types, entries without a command text that declare foreign / unknown platforms, NUL / control / invalid UTF-8 / BOM bytes, anchors, aliases, merge keys, a 9-level alias bomb, tags, truncated quotes, block scalars, duplicate keys, a 66 KB scalar, 1000-deep nesting, documents, non-entries, Unicode white space raw and as YAML escapes) as database file + missing paths under 6 names (.yml, .yaml, names containing 'yaml:', 'unmarshal', 'permission denied', a missing directory) + a directory path; load classified against yaml.v3's own decode of the same bytes (loads iff it decodes as a list of entries; parse error otherwise; not-found for a missing file); every loaded database searched with 40 hostile queries (incl. Unicode white space of every class, and the NLP phrase clues behind bytes whose lower-casing changes length) x 8 option corners (zero value, negative and huge limits, thresholds, non-finite-free boosts incl. 0 / negative / 1e300, odd platforms) through SearchUniversal, Search, SearchWithPipelineOptions, SearchWithOptions, SearchWithFuzzy, SearchWithNLP, the cached wrapper, GetSuggestions and the recovery searches; panic, step-budget (20 s watchdog) and allocation oracles. evaluations = loads + search calls; non-trivial = files that loaded and were searched",
		Assume:    []string{"yaml.v3's decoder defines 'decodes as a list of command entries'", "step budget 20 s per call stands for 'bounded time' (slowest observed call is milliseconds)"},
		QuickSecs: 200, ThorSecs: 2400,
		Run: c10Run,
		Replay: func(c *lib.Ctx, raw json.RawMessage) []lib.Violation {
			var cs c10Case
			if json.Unmarshal(raw, &cs) != nil {
				return nil
			}
			var only *c10Case
			if cs.Entry != "" && cs.Entry != "LoadDatabase" {
				o := cs
				only = &o
			}
			return c10File(c.Scratch, c10Case{Atoms: cs.Atoms, Special: cs.Special}, only, func(string) {})
		},
		Finish: func(m *lib.Report, tier string) string {
			if !m.Exhaustive {
				return ""
			}
			for _, k := range []string{"loaded", "rejected", "calls", "missing_file", "directory_path"} {
				if m.Counters[k] == 0 {
					return "vacuous: counter " + k + " is zero"
				}
			}
			return ""
		},
	})
}

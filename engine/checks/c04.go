package checks

import (
	"encoding/json"
	"fmt"
	"strconv"

	"github.com/Vedant9500/WTF/internal/database"
	"github.com/Vedant9500/WTF/internal/zzvrt/vhost"
	"github.com/Vedant9500/WTF/zzverif/lib"
)

// C04 — platform and pipeline filters hold for every result on every path.
// Engine E2: databases of platform-shaped entries x queries reaching the
// lexical, NLP, typo-fallback and cached paths x every combination of the
// platform / pipeline switches x host OS (vhost).  Oracle: soundness of the
// filter (every returned entry is eligible by the statement's predicate).

var c04Pool = []int{0, 2, 3, 4, 5, 6, 7, 8, 9, 10, 11, 12, 13, 14, 15, 16, 17, 19, 28, 29, 30, 31}

var c04Queries = []string{
	// lexical hits
	"files", "git", "qzx", "list files", "dir", "compress", "sort", "status log",
	// NLP expansion (actions / targets / hints add terms)
	"show folder", "search", "find directory", "archive folder",
	// typo fallback: no terms, or no posting survives
	"qz", "gt", "fils", "dr", "l", "comprss", "Qzx r", "srt",
}

// the last two are names that are only aliases / members of a family (asking for one is not asking for the family)
var c04Platforms = [][]string{nil, {"linux"}, {"windows"}, {"Linux", "macos"}, {"cross-platform"}, {"powershell"}, {"unix"},
	// naming every common operating system is not "all platforms" (entries of other systems stay out); a system outside the usual three
	{"linux", "macos", "windows"}, {"bsd"}}

var c04Hosts = []string{"linux", "darwin", "windows", "freebsd"}

type c04Env struct {
	db    *database.Database
	cdb   *database.CachedDatabase
	mdb   *database.MonitoredDatabase
	chain *database.CachedDatabase
	// chains: one never-invalidated cache per host OS (a process has one host; the host is not part of the key)
	chains map[string]*database.CachedDatabase
}

func c04Eval(e *c04Env, cs sCase) (*lib.Violation, string) {
	vhost.Set(cs.Host)
	q, o := cs.query(), cs.Opts
	var rs []database.SearchResult
	var pv any
	func() {
		defer func() { pv = recover() }()
		switch cs.Entry {
		case "SearchUniversal":
			rs = e.db.SearchUniversal(q, o)
		case "cached":
			e.cdb.InvalidateCache()
			e.cdb.SearchWithOptionsAndCache(q, o)
			rs = e.cdb.SearchWithOptionsAndCache(q, o)
		case "cached-chain":
			// no invalidation: earlier requests with other switch settings have filled the cache
			ch := e.chain
			if e.chains != nil {
				if e.chains[cs.Host] == nil {
					e.chains[cs.Host] = database.NewCachedDatabase(e.db)
				}
				ch = e.chains[cs.Host]
			}
			rs = ch.SearchWithOptionsAndCache(q, o)
		case "monitored":
			e.mdb.InvalidateCache()
			e.mdb.SearchWithOptionsAndMonitoring(q, o)
			rs = e.mdb.SearchWithOptionsAndMonitoring(q, o)
		case "SearchWithPipelineOptions":
			rs = e.db.SearchWithPipelineOptions(q, o)
		}
	}()
	if pv != nil {
		return &lib.Violation{Key: "panic:" + cs.Entry, What: fmt.Sprintf("%s panicked: %v", cs.Entry, pv), Case: cs}, "panic"
	}
	items := uItems(e.db, rs)
	obs := uDigest(items)
	path := "lexical"
	if o.UseNLP {
		path = "nlp"
	}
	if o.UseFuzzy {
		// the fallback answered iff the same search without it is empty
		var off []database.SearchResult
		o2 := o
		o2.UseFuzzy = false
		func() {
			defer func() { recover() }()
			off = e.db.SearchUniversal(q, o2)
		}()
		if len(off) == 0 && len(rs) > 0 {
			path = "fuzzy"
		}
	}
	for _, it := range items {
		if it.Idx < 0 {
			continue
		}
		ent := &e.db.Commands[it.Idx]
		if cs.Entry != "SearchWithPipelineOptions" && !refEligible(ent, o, cs.Host) {
			flag := "host-platform"
			if len(o.Platforms) > 0 {
				flag = "requested-platforms"
			}
			if o.NoCrossPlatform {
				flag += "+no-cross-platform"
			}
			return &lib.Violation{Key: "platform:" + path + ":" + flag,
				What: fmt.Sprintf("%s (%s path) on host %s returned %q declaring platforms %v, none of which is in force (requested %v, no-cross-platform=%v)",
					cs.Entry, path, cs.Host, ent.Command, ent.Platform, o.Platforms, o.NoCrossPlatform),
				Case: cs, Observed: items}, obs
		}
		if o.PipelineOnly && !refIsPipeline(ent) {
			return &lib.Violation{Key: "pipeline:" + path, What: fmt.Sprintf("%s (%s path) with PipelineOnly returned %q, which is not a pipeline command", cs.Entry, path, ent.Command), Case: cs, Observed: items}, obs
		}
	}
	return nil, path + "|" + obs
}

func c04DBs(thorough bool) []dbSpec {
	var out []dbSpec
	k := 2
	if thorough {
		k = 3
	}
	for _, s := range uSubsets(len(c04Pool), k) {
		idx := make([]int, len(s))
		for i, j := range s {
			idx[i] = c04Pool[j]
		}
		out = append(out, dbSpec{Pool: idx})
	}
	out = append(out, dbSpec{Pool: c04Pool})
	return out
}

func c04Run(c *lib.Ctx) {
	defer vhost.Set("")
	var idx int64
	selfCheck := 0
	for di, spec := range c04DBs(c.Thorough()) {
		if !c.Mine(int64(di)) {
			continue
		}
		if c.Expired() {
			return
		}
		db := spec.build(c)
		env := &c04Env{db: db, cdb: database.NewCachedDatabase(db), mdb: database.NewMonitoredDatabase(db), chains: map[string]*database.CachedDatabase{}}
		// would an ineligible entry match textually? (non-vacuity, per db)
		for _, q := range c04Queries {
			qq := strconv.Quote(q)
			for _, host := range c04Hosts {
				for bits := 0; bits < 32; bits++ {
					for pi, plats := range c04Platforms {
						o := Opts{Limit: len(db.Commands) + 3, AllPlatforms: bits&1 != 0, NoCrossPlatform: bits&2 != 0, PipelineOnly: bits&4 != 0,
							UseNLP: bits&8 != 0, UseFuzzy: bits&16 != 0, Platforms: plats}
						if o.UseFuzzy && pi%2 == 1 {
							o.FuzzyThreshold = -30
						}
						entries := []string{"SearchUniversal", "cached-chain"}
						if bits&24 == 0 || idx%5 == 0 {
							entries = append(entries, "cached")
						}
						if bits&24 == 0 && pi == 0 {
							entries = append(entries, "monitored", "SearchWithPipelineOptions")
						}
						for _, en := range entries {
							cs := sCase{DB: spec, Query: qq, Opts: o, Entry: en, Host: host}
							v, obs := c04Eval(env, cs)
							c.Rep.Evaluations++
							idx++
							if selfCheck < 64 && en != "cached-chain" {
								selfCheck++
								if _, o2 := c04Eval(env, cs); o2 != obs {
									c.Fail("harness nondeterminism on %+v", cs)
								}
							}
							if v == nil && en == "SearchUniversal" && o.UseFuzzy && pi < 3 {
								// the same request with only --no-cross-platform flipped, asked of the same database object
								// straight afterwards, and the original again: nothing kept from one may serve the other
								t := cs
								t.Opts.NoCrossPlatform = !o.NoCrossPlatform
								for _, again := range []sCase{t, cs} {
									v2, _ := c04Eval(env, again)
									c.Rep.Evaluations++
									c.Count("no_cross_platform_toggles", 1)
									if v2 != nil {
										tc := again
										tc.Toggle = true
										v2.Case = tc
										v2.Key = "after-toggle:" + v2.Key
										v2.What = "directly after the same search with --no-cross-platform flipped: " + v2.What
										v = v2
										break
									}
								}
							}
							if v != nil {
								c.Violate(*v)
								continue
							}
							if len(obs) > 0 && obs[len(obs)-1] == ';' {
								c.Rep.Nontrivial++
								p := obs[:5]
								switch {
								case p == "fuzzy":
									c.Count("answered:fuzzy", 1)
								case p[:3] == "nlp":
									c.Count("answered:nlp", 1)
								default:
									c.Count("answered:lexical", 1)
								}
								if en == "cached" {
									c.Count("answered:cached", 1)
								}
							}
							if idx%60000 == 11 {
								c.Sample(map[string]any{"case": cs, "observed": obs})
							}
						}
					}
				}
			}
		}
	}
	// the chain again with the switch combinations in the opposite order (so that every
	// combination also follows, not only precedes, the others) on the 22-entry database
	if c.Shard == 1 {
		spec := dbSpec{Pool: c04Pool}
		db := spec.build(c)
		env := &c04Env{db: db, chain: database.NewCachedDatabase(db)}
		for _, host := range c04Hosts {
			env.chain.InvalidateCache()
			for _, q := range c04Queries {
				for bits := 31; bits >= 0; bits-- {
					for pi := len(c04Platforms) - 1; pi >= 0; pi-- {
						o := Opts{Limit: len(db.Commands) + 3, AllPlatforms: bits&1 != 0, NoCrossPlatform: bits&2 != 0, PipelineOnly: bits&4 != 0,
							UseNLP: bits&8 != 0, UseFuzzy: bits&16 != 0, Platforms: c04Platforms[pi]}
						cs := sCase{DB: spec, Query: strconv.Quote(q), Opts: o, Entry: "cached-chain", Host: host}
						v, _ := c04Eval(env, cs)
						c.Rep.Evaluations++
						c.Count("cached_chain_descending", 1)
						if v != nil {
							c.Violate(*v)
						}
					}
				}
			}
		}
	}
	// non-vacuity: per (path x flag) cell an ineligible entry that matches textually
	if c.Shard == 0 {
		c04Cells(c)
	}
}

// c04Cells counts, for every path x filter cell, cases in which an entry that
// the filter must exclude matches the query textually with all platforms
// requested (so the filter is what keeps it out).
func c04Cells(c *lib.Ctx) {
	db := dbSpec{Pool: c04Pool}.build(c)
	for _, host := range c04Hosts {
		vhost.Set(host)
		for _, q := range c04Queries {
			for _, nlp := range []bool{false, true} {
				for _, fz := range []bool{false, true} {
					all := db.SearchUniversal(q, Opts{Limit: 100, AllPlatforms: true, UseNLP: nlp, UseFuzzy: fz})
					for pi, plats := range c04Platforms {
						for _, ncp := range []bool{false, true} {
							o := Opts{Platforms: plats, NoCrossPlatform: ncp}
							for _, r := range all {
								if !refEligible(r.Command, o, host) {
									c.Count(fmt.Sprintf("cell:nlp=%v:fuzzy=%v:platforms=%d:nocross=%v", nlp, fz, pi, ncp), 1)
									break
								}
							}
						}
					}
					for _, r := range all {
						if !refIsPipeline(r.Command) {
							c.Count(fmt.Sprintf("cell:pipeline:nlp=%v:fuzzy=%v", nlp, fz), 1)
							break
						}
					}
				}
			}
		}
	}
	vhost.Set("")
}

func c04Replay(c *lib.Ctx, raw json.RawMessage) []lib.Violation {
	defer vhost.Set("")
	var cs sCase
	if json.Unmarshal(raw, &cs) != nil {
		return nil
	}
	db := cs.DB.build(c)
	env := &c04Env{db: db, cdb: database.NewCachedDatabase(db), mdb: database.NewMonitoredDatabase(db), chain: database.NewCachedDatabase(db)}
	if cs.Entry == "cached-chain" {
		// replay the chain: the same query with every switch combination before this one
		for bits := 0; bits < 32; bits++ {
			for _, plats := range c04Platforms {
				o := cs.Opts
				o.AllPlatforms, o.NoCrossPlatform, o.PipelineOnly, o.UseNLP, o.UseFuzzy, o.Platforms = bits&1 != 0, bits&2 != 0, bits&4 != 0, bits&8 != 0, bits&16 != 0, plats
				vhost.Set(cs.Host)
				env.chain.SearchWithOptionsAndCache(cs.query(), o)
			}
		}
	}
	if cs.Toggle {
		t := cs
		t.Toggle = false
		f := t
		f.Opts.NoCrossPlatform = !t.Opts.NoCrossPlatform
		// both orders the exploration can have produced: (this, flipped, this) and (flipped, this)
		for _, seq := range [][]sCase{{f, t}, {t, f, t}} {
			db := cs.DB.build(c)
			e2 := &c04Env{db: db, cdb: database.NewCachedDatabase(db), mdb: database.NewMonitoredDatabase(db), chain: database.NewCachedDatabase(db)}
			for i, x := range seq {
				v, _ := c04Eval(e2, x)
				if v != nil && i == len(seq)-1 {
					return []lib.Violation{*v}
				}
			}
		}
		return nil
	}
	if v, _ := c04Eval(env, cs); v != nil {
		return []lib.Violation{*v}
	}
	return nil
}

func init() {
	lib.Register(&lib.Check{
		ID: "C04", Level: "model_checking",
		Rule:      "full product of: databases = all subsets of <=2 (quick) / <=3 (thorough) of 22 platform-shaped / pipeline pool entries (an entry with a single redirect and a background & that is NOT a pipeline; none, linux, windows, macos, darwin, PowerShell, unix, bsd, cross-platform in two spellings, two-platform; on whitelisted tools, on a non-tool, on a tool behind a launcher prefix such as sudo / nohup and on a look-alike of a tool name) + the 22-entry database; 20 queries (lexical, NLP-expanded, typo-fallback with no terms and with all postings filtered); AllPlatforms x NoCrossPlatform x PipelineOnly x UseNLP x UseFuzzy (each typo-fallback request through SearchUniversal also followed at once, on the same database object, by the same request with only NoCrossPlatform flipped and by itself again) x 9 requested-platform lists (none, linux, windows, Linux+macos, cross-platform, the family members powershell and unix, all of linux+macos+windows, and bsd); 4 host OS values (vhost); entry points SearchUniversal and a chained cached wrapper (one cache per database and host, never invalidated, so answers cached under other switch settings are available to be served wrongly; ascending and, on the 22-entry database, descending order of combinations) always, cached (second call) on lexical cases and every 5th other, monitored and SearchWithPipelineOptions on lexical/no-platform cases. Oracle: every returned entry is eligible by the reference predicate, and is a pipeline command under PipelineOnly. Non-trivial = calls with a non-empty answer",
		Assume:    []string{"alias pool limited to darwin, powershell, cmd, unix, bash", "the platform filter is demanded of SearchUniversal-based entry points; of the legacy SearchWithPipelineOptions only the pipeline gate is demanded", "map order pinned"},
		QuickSecs: 150, ThorSecs: 900,
		Run: c04Run, Replay: c04Replay,
		Finish: func(m *lib.Report, tier string) string {
			if !m.Exhaustive {
				return ""
			}
			for _, k := range []string{"answered:lexical", "answered:nlp", "answered:fuzzy", "answered:cached"} {
				if m.Counters[k] == 0 {
					return "vacuous: counter " + k + " is zero"
				}
			}
			for _, nlp := range []bool{false, true} {
				for _, fz := range []bool{false, true} {
					if m.Counters[fmt.Sprintf("cell:pipeline:nlp=%v:fuzzy=%v", nlp, fz)] == 0 {
						return "vacuous: pipeline cell empty"
					}
					for pi := range c04Platforms {
						for _, ncp := range []bool{false, true} {
							k := fmt.Sprintf("cell:nlp=%v:fuzzy=%v:platforms=%d:nocross=%v", nlp, fz, pi, ncp)
							if m.Counters[k] == 0 {
								return "vacuous: " + k
							}
						}
					}
				}
			}
			return ""
		},
	})
}

package checks

import (
	"encoding/json"
	"fmt"
	"sort"
	"strings"
	"time"

	"github.com/Vedant9500/WTF/internal/metrics"
	"github.com/Vedant9500/WTF/internal/zzvrt/vmap"
	"github.com/Vedant9500/WTF/zzverif/lib"
)

// C18 — metrics are keyed by identity and account for every event.
// (identity, E4) every tag map of <=3 tags x every iteration order of the tag
// map at every key computation (full schedule DFS, no deviation bound);
// (monitor, E4+E1) every sequence of <=4 monitor record calls under every
// order assignment; (accounting, E1) every sequence of <=4 metric operations
// against exact arithmetic. The concurrent scenarios are in c11.go (S5) and
// are run by this check as well.

// exploreOrders runs f under every assignment of iteration orders to the
// dynamic range points whose site contains filter (odometer DFS over the
// choice tree; other sites stay canonical). f must be deterministic given the
// orders. Returns the number of executions.
func exploreOrders(filter string, maxRuns int, f func(sched []int)) (runs int, capped bool) {
	var prefix []int
	for {
		var choices, arity []int
		vmap.Choose = func(site string, n int) []int {
			if !strings.Contains(site, filter) || n < 2 {
				return nil
			}
			k := len(choices)
			perms := allPermsCached(n)
			c := 0
			if k < len(prefix) {
				c = prefix[k]
			}
			if c >= len(perms) {
				c = 0
			}
			choices = append(choices, c)
			arity = append(arity, len(perms))
			return perms[c]
		}
		f(append([]int{}, prefix...))
		vmap.Choose = nil
		runs++
		// next schedule
		i := len(choices) - 1
		for i >= 0 && choices[i]+1 >= arity[i] {
			i--
		}
		if i < 0 {
			return runs, false
		}
		prefix = append(append([]int{}, choices[:i]...), choices[i]+1)
		if runs >= maxRuns {
			return runs, true
		}
	}
}

var permCache = map[int][][]int{}

func allPermsCached(n int) [][]int {
	if n > 4 {
		n2 := n
		if p, ok := permCache[-n2]; ok {
			return p
		}
		// identity, reverse, rotate for larger maps
		id, rev, rot := identityPerm(n), make([]int, n), make([]int, n)
		for i := 0; i < n; i++ {
			rev[i] = n - 1 - i
			rot[i] = (i + 1) % n
		}
		permCache[-n2] = [][]int{id, rev, rot}
		return permCache[-n2]
	}
	if p, ok := permCache[n]; ok {
		return p
	}
	permCache[n] = allPerms(n)
	return permCache[n]
}

type c18Case struct {
	Kind  string            `json:"kind"` // identity | monitor | accounting
	Name  string            `json:"name,omitempty"`
	Tags  map[string]string `json:"tags,omitempty"`
	Type  string            `json:"metric_type,omitempty"`
	Ops   []string          `json:"ops,omitempty"`
	Sched []int             `json:"order_choices,omitempty"`
}

func c18TagMaps() []map[string]string {
	out := []map[string]string{nil, {}}
	keys := []string{"a", "b", "c"}
	vals := []string{"1", "2"}
	for mask := 1; mask < 8; mask++ {
		var ks []string
		for i, k := range keys {
			if mask&(1<<i) != 0 {
				ks = append(ks, k)
			}
		}
		for v := 0; v < 1<<len(ks); v++ {
			m := map[string]string{}
			for i, k := range ks {
				m[k] = vals[(v>>i)&1]
			}
			out = append(out, m)
		}
	}
	return out
}

func tagString(m map[string]string) string {
	var ks []string
	for k := range m {
		ks = append(ks, k)
	}
	sort.Strings(ks)
	s := ""
	for _, k := range ks {
		s += k + "=" + m[k] + ","
	}
	return s
}

func sameTags(a, b map[string]string) bool { return tagString(a) == tagString(b) }

// c18Identity: the same (name, tags) asked twice must give the same metric,
// under every pair of iteration orders, and exactly one series must exist.
func c18Identity(c *lib.Ctx, cs c18Case, count bool) []lib.Violation {
	var vs []lib.Violation
	runs, _ := exploreOrders("metrics.go", 5000, func(sched []int) {
		col := metrics.NewCollector()
		same := false
		switch cs.Type {
		case "counter":
			a := col.Counter(cs.Name, cs.Tags)
			a.Inc()
			b := col.Counter(cs.Name, cs.Tags)
			b.Inc()
			same = a == b && a.Value() == 2
		case "gauge":
			a := col.Gauge(cs.Name, cs.Tags)
			b := col.Gauge(cs.Name, cs.Tags)
			same = a == b
		case "histogram":
			a := col.Histogram(cs.Name, cs.Tags)
			a.Observe(1)
			b := col.Histogram(cs.Name, cs.Tags)
			b.Observe(1)
			same = a == b && a.Count() == 2
		case "timer":
			a := col.Timer(cs.Name, cs.Tags)
			b := col.Timer(cs.Name, cs.Tags)
			same = a == b
		}
		c.Rep.Evaluations++
		if !same {
			cc := cs
			cc.Sched = sched
			if len(vs) < 2 {
				vs = append(vs, lib.Violation{Key: fmt.Sprintf("identity-split:%s:%d-tags", cs.Type, len(cs.Tags)),
					What: fmt.Sprintf("asking twice for %s %q with tags {%s} gave two different series when the tag map is walked in different orders", cs.Type, cs.Name, tagString(cs.Tags)), Case: cc})
			}
			return
		}
		if cs.Type == "counter" || cs.Type == "histogram" {
			n := 0
			for _, m := range col.GetAllMetrics() {
				if (m.Name == cs.Name || m.Name == cs.Name+"_count") && sameTags(m.Tags, cs.Tags) {
					n++
				}
			}
			if n != 1 && len(vs) < 2 {
				cc := cs
				cc.Sched = sched
				vs = append(vs, lib.Violation{Key: "series-count:" + cs.Type, What: fmt.Sprintf("GetAllMetrics lists %d series for one identity", n), Case: cc})
			}
		}
	})
	if count {
		c.Rep.Transitions += int64(runs)
		c.Rep.States++
		if runs > 1 {
			c.Count("identity_cases_with_several_orders", 1)
			c.Rep.Nontrivial++
		}
	}
	return vs
}

// a 4th field "zero" / "neg": the operation took no measurable time (coarse clock) or the clock stepped back
var c18MonitorOps = []string{"db:load:true", "db:load:false", "db:save:true", "search:hit", "search:miss", "search:hit:zero", "db:load:true:neg"}

func c18Monitor(c *lib.Ctx, cs c18Case, count bool) []lib.Violation {
	var vs []lib.Violation
	runs, capped := exploreOrders("metrics.go", 3000, func(sched []int) {
		pm := metrics.NewPerformanceMonitor()
		wantDB := map[string]int{}
		hits, misses := 0, 0
		for _, op := range cs.Ops {
			p := strings.Split(op, ":")
			dur, nres, qlen := time.Millisecond, 3, 7
			if len(p) > 3 && p[0] == "db" {
				dur = -time.Millisecond
			} else if len(p) > 2 && p[0] == "search" && p[len(p)-1] == "zero" {
				dur, nres, qlen = 0, 0, 0
			}
			if p[0] == "db" {
				pm.RecordDatabaseOperation(p[1], dur, p[2] == "true")
				wantDB["operation="+p[1]+",success="+p[2]+","]++
			} else {
				pm.RecordSearchOperation(dur, nres, p[1] == "hit", qlen)
				if p[1] == "hit" {
					hits++
				} else {
					misses++
				}
			}
		}
		rep := pm.GetPerformanceReport()
		c.Rep.Evaluations++
		gotDB := map[string]float64{}
		series := map[string]int{}
		var searches, h, m float64
		for _, x := range rep.ApplicationMetrics {
			switch x.Name {
			case "database_operations_total":
				gotDB[tagString(x.Tags)] += x.Value
				series[tagString(x.Tags)]++
			case "searches_total":
				searches += x.Value
				series["s:"+tagString(x.Tags)]++
			case "cache_hits_total":
				h += x.Value
			case "cache_misses_total":
				m += x.Value
			}
		}
		bad := ""
		for k, w := range wantDB {
			if gotDB[k] != float64(w) {
				bad = fmt.Sprintf("database_operations_total{%s} is %v after %d recorded operations", k, gotDB[k], w)
			}
		}
		for k, n := range series {
			if n != 1 {
				bad = fmt.Sprintf("%d series for the one identity {%s}", n, k)
			}
		}
		if searches != float64(hits+misses) || h != float64(hits) || m != float64(misses) {
			bad = fmt.Sprintf("searches_total=%v cache_hits=%v cache_misses=%v after %d hits and %d misses", searches, h, m, hits, misses)
		}
		if bad != "" && len(vs) < 2 {
			cc := cs
			cc.Sched = sched
			key := "monitor-totals"
			if strings.Contains(bad, "series") {
				key = "monitor-duplicate-series"
			}
			vs = append(vs, lib.Violation{Key: key, What: "after " + strings.Join(cs.Ops, ", ") + ": " + bad, Case: cc})
		}
	})
	if count {
		c.Rep.Transitions += int64(runs)
		c.Rep.States++
		c.Rep.Nontrivial++
		if capped {
			c.Count("monitor_cases_capped_at_3000_schedules", 1)
		}
	}
	return vs
}

var c18AcctOps = []string{"inc", "add3", "obs0.125", "obs0.0004", "obs1.005", "obs7", "obs20000", "set2.5", "reset"}

func c18Accounting(c *lib.Ctx, cs c18Case) []lib.Violation {
	col := metrics.NewCollector()
	tags := map[string]string{"k": "v"}
	ctr := col.Counter("c", tags)
	h := col.Histogram("h", nil)
	g := col.Gauge("g", nil)
	var want int64
	var n int64
	var sum float64
	gv := 0.0
	for i, op := range cs.Ops {
		switch {
		case op == "inc":
			ctr.Inc()
			want++
		case op == "add3":
			ctr.Add(3)
			want += 3
		case op == "reset":
			ctr.Reset()
			want = 0
		case op == "set2.5":
			g.Set(2.5)
			gv = 2.5
		case strings.HasPrefix(op, "obs"):
			var v float64
			fmt.Sscanf(op[3:], "%g", &v)
			h.Observe(v)
			n++
			sum += v
		}
		c.Rep.Evaluations++
		bad := ""
		if ctr.Value() != want {
			bad = fmt.Sprintf("counter is %d after increments totalling %d", ctr.Value(), want)
		}
		if h.Count() != n || h.Sum() != sum {
			bad = fmt.Sprintf("histogram reports %d observations summing to %v; %d were made summing to %v", h.Count(), h.Sum(), n, sum)
		}
		if n > 0 && h.Mean() != sum/float64(n) {
			bad = fmt.Sprintf("histogram mean %v, exact %v", h.Mean(), sum/float64(n))
		}
		if g.Value() != gv {
			bad = fmt.Sprintf("gauge is %v after Set(%v)", g.Value(), gv)
		}
		prev := -1.0
		for _, p := range []float64{0, 1, 50, 90, 95, 99, 100} {
			x := h.Percentile(p)
			if x < prev {
				bad = fmt.Sprintf("percentile %v is %v, below a lower percentile's %v", p, x, prev)
			}
			prev = x
		}
		for _, m := range col.GetAllMetrics() {
			switch m.Name {
			case "c":
				if m.Value != float64(want) {
					bad = fmt.Sprintf("GetAllMetrics reports counter %v, value is %d", m.Value, want)
				}
			case "h_count":
				if m.Value != float64(n) {
					bad = fmt.Sprintf("GetAllMetrics reports %v observations, %d were made", m.Value, n)
				}
			case "h_sum":
				if m.Value != sum {
					bad = fmt.Sprintf("GetAllMetrics reports sum %v, exact %v", m.Value, sum)
				}
			}
		}
		if bad != "" {
			cc := cs
			cc.Ops = cs.Ops[:i+1]
			return []lib.Violation{{Key: "accounting:" + strings.SplitN(bad, " ", 2)[0], What: "after " + strings.Join(cc.Ops, ", ") + ": " + bad, Case: cc}}
		}
	}
	return nil
}

// c18Distinct: every ordered pair of different tag maps under the plain name m (only the pair whose second map
// renders as onlyB when that is non-empty: replay).
func c18Distinct(c *lib.Ctx, onlyB string) {
	maps := c18TagMaps()[1:]
	for _, a := range maps {
		for _, b := range maps {
			if tagString(a) == tagString(b) || (onlyB != "" && tagString(b) != onlyB) {
				continue
			}
			col := metrics.NewCollector()
			ca := col.Counter("m", a)
			ca.Inc()
			ca.Inc()
			cb := col.Counter("m", b)
			cb.Inc()
			ha, hb := col.Histogram("h", a), col.Histogram("h", b)
			ha.Observe(1)
			hb.Observe(2)
			hb.Observe(4)
			c.Rep.Evaluations++
			c.Count("distinct_identity_pairs", 1)
			bad := ""
			switch {
			case ca == cb || ha == hb:
				bad = "received the same metric"
			case ca.Value() != 2 || cb.Value() != 1:
				bad = fmt.Sprintf("counters read %d and %d after 2 and 1 increments", ca.Value(), cb.Value())
			case ha.Count() != 1 || hb.Count() != 2 || ha.Sum() != 1 || hb.Sum() != 6:
				bad = fmt.Sprintf("histograms report %d/%v and %d/%v after observations {1} and {2,4}", ha.Count(), ha.Sum(), hb.Count(), hb.Sum())
			}
			if bad != "" {
				c.Violate(lib.Violation{Key: "identities-merged", What: fmt.Sprintf("two different identities, name m with tags {%s} and {%s}, %s", tagString(a), tagString(b), bad),
					Case: c18Case{Kind: "distinct", Name: "m", Tags: a, Ops: []string{tagString(b)}}})
			}
		}
	}
}

// c18CrossKind: a series keeps its identity and its own events whatever OTHER series (another kind, a
// related name such as <name>_duration, which is what a timer calls its histogram) is requested and
// used in between: request A, record once, request B, record once, request A again.
func c18CrossKind(c *lib.Ctx) {
	type req struct{ kind, name string }
	var reqs []req
	for _, k := range []string{"counter", "gauge", "histogram", "timer"} {
		for _, n := range []string{"m", "m_duration", "m_total"} {
			reqs = append(reqs, req{k, n})
		}
	}
	get := func(col *metrics.Collector, r req, tags map[string]string) (ptr any, record func(), count func() int64) {
		switch r.kind {
		case "counter":
			m := col.Counter(r.name, tags)
			return m, m.Inc, m.Value
		case "gauge":
			m := col.Gauge(r.name, tags)
			return m, m.Inc, func() int64 { return int64(m.Value()) }
		case "histogram":
			m := col.Histogram(r.name, tags)
			return m, func() { m.Observe(2) }, m.Count
		default:
			m := col.Timer(r.name, tags)
			return m, func() { m.TimeFunc(func() {}) }, func() int64 { return m.Histogram().Count() }
		}
	}
	for _, tags := range []map[string]string{nil, {"a": "1"}} {
		for _, a := range reqs {
			for _, b := range reqs {
				col := metrics.NewCollector()
				pa, recA, cntA := get(col, a, tags)
				recA()
				pb, recB, _ := get(col, b, tags)
				recB()
				pa2, _, cntA2 := get(col, a, tags)
				c.Rep.Evaluations++
				c.Count("cross_kind_sequences", 1)
				want := int64(1)
				if a == b {
					want = 2
				}
				bad := ""
				switch {
				case pa2 != pa:
					bad = "the second request returned a different metric"
				case a == b && pb != pa:
					bad = "the same request in between returned a different metric"
				case cntA() != want || cntA2() != want:
					bad = fmt.Sprintf("it reports %d events, %d were recorded in it", cntA(), want)
				}
				if bad != "" {
					c.Violate(lib.Violation{Key: "cross-kind-interference", What: fmt.Sprintf("%s %q tags {%s}: requested, used once, then %s %q requested and used once, then requested again: %s",
						a.kind, a.name, tagString(tags), b.kind, b.name, bad), Case: c18Case{Kind: "crosskind", Name: a.name, Type: a.kind, Tags: tags, Ops: []string{b.kind, b.name}}})
				}
			}
		}
	}
}

func c18Run(c *lib.Ctx) {
	var idx int64
	// identity
	for _, name := range []string{"m", "m:a=1", ""} {
		for _, tags := range c18TagMaps() {
			for _, typ := range []string{"counter", "gauge", "histogram", "timer"} {
				idx++
				if !c.Mine(idx) {
					continue
				}
				cs := c18Case{Kind: "identity", Name: name, Tags: tags, Type: typ}
				for _, v := range c18Identity(c, cs, true) {
					c.Violate(v)
				}
				if idx%40 == 3 {
					c.Sample(map[string]any{"case": cs})
				}
			}
		}
	}
	// different tag maps under one plain name are different series: events recorded for one never land in the other
	if c.Shard == 1%c.NShards {
		c18Distinct(c, "")
	}
	// monitor
	depth := 3
	if c.Thorough() {
		depth = 5
	}
	for _, s := range uSequences(len(c18MonitorOps), depth) {
		idx++
		if !c.Mine(idx) {
			continue
		}
		ops := make([]string, len(s))
		for i, j := range s {
			ops[i] = c18MonitorOps[j]
		}
		for _, v := range c18Monitor(c, c18Case{Kind: "monitor", Ops: ops}, true) {
			c.Violate(v)
		}
		c.Count("monitor_sequences", 1)
	}
	// accounting
	adepth := 4
	if c.Thorough() {
		adepth = 6
	}
	for _, s := range uSequences(len(c18AcctOps), adepth) {
		if len(s) < adepth {
			continue // prefixes are checked step by step inside longer sequences
		}
		idx++
		if !c.Mine(idx) {
			continue
		}
		ops := make([]string, len(s))
		for i, j := range s {
			ops[i] = c18AcctOps[j]
		}
		for _, v := range c18Accounting(c, c18Case{Kind: "accounting", Ops: ops}) {
			c.Violate(v)
		}
		c.Count("accounting_sequences", 1)
	}
	if c.Mine(7) {
		c18CrossKind(c)
	}
	// concurrent callers: the collector scenarios of the schedule explorer (engine E3, see c11.go)
	w := newC11World(c)
	for si, sc := range c11Scenarios() {
		if sc.Name != "S5-collector-new-series" && sc.Name != "S9-counter-increments" && sc.Name != "S4-monitored-database" && sc.Name != "S12-histogram-observations" {
			continue
		}
		if !c.Mine(int64(si)) {
			continue
		}
		bound := 2
		if sc.Name == "S4-monitored-database" {
			bound = 1
		}
		viols, e, outcomes := c11Explore(c, w, sc, bound, 1, 0, nil)
		for _, v := range viols {
			v.Key = "concurrent:" + v.Key
			c.Violate(v)
		}
		c.Rep.Evaluations += e.Execs
		c.Rep.Transitions += e.Execs
		c.Count("schedules:"+sc.Name, e.Execs)
		c.Count("schedule_outcomes:"+sc.Name, int64(len(outcomes)))
	}
	c.Rep.Traces = c.Rep.Evaluations
}

func init() {
	lib.Register(&lib.Check{
		ID: "C18", Level: "model_checking",
		Rule:      "(identity) names {m, 'm:a=1', ''} x all 28 tag maps with <=3 tags over keys {a,b,c} and values {1,2} (plus nil and empty) x {counter, gauge, histogram, timer}: the metric is requested twice under EVERY assignment of iteration orders to the tag-map range points of the key computation (full DFS over the choice tree, all n! orders per point); both requests must return the same pointer, both events must land in it, GetAllMetrics must list one series; and every ordered pair of different tag maps under the plain name m are different series (different pointers, increments and observations do not leak); and every ordered pair of requests over {counter, gauge, histogram, timer} x {m, m_duration, m_total} (request A, use it, request B, use it, request A again: same metric, only its own events). (monitor) every sequence of <=3 (quick) / <=5 (thorough) calls of RecordDatabaseOperation(load ok / load failed / save ok) and RecordSearchOperation(hit / miss / a hit that took no time and found nothing) and a load recorded with a negative duration, under every order assignment (cap 3000 schedules per sequence, reported): per-identity and total counts in the report equal the operations recorded, one series per identity. (accounting) every sequence of 4 (quick) / 6 (thorough) operations over {Inc, Add(3), Observe(0.125|0.0004|1.005|7|20000: binary fractions, values below and not a multiple of 1/1000, above the last bucket), Set(2.5), Reset}: counter, histogram count / exact sum / mean, gauge, percentile monotonicity and GetAllMetrics after every step. (concurrent) the collector scenarios of the schedule explorer: two goroutines creating the same new series + a third observing and listing (S5), three goroutines incrementing one counter / gauge (S9), five observations of one histogram from three goroutines with a reader (S12: exact count and sum) under every interleaving with <=2 preemptions, monitored searches (S4) with <=1: same pointer, no lost increment, one series. states = cases; transitions = executions under distinct order assignments / schedules",
		Assume:    []string{"only map ranges inside internal/metrics are explored here; dyadic observation values make the exact sum order-independent", "scheduling points = sync / atomic operations (build overlay shims); deeper bounds of the same scenarios run under C11"},
		QuickSecs: 120, ThorSecs: 900, Graph: true,
		Run: c18Run,
		Replay: func(c *lib.Ctx, raw json.RawMessage) []lib.Violation {
			var cs c18Case
			if json.Unmarshal(raw, &cs) != nil {
				return nil
			}
			switch cs.Kind {
			case "identity":
				return c18Identity(c, cs, false)
			case "monitor":
				return c18Monitor(c, cs, false)
			case "accounting":
				return c18Accounting(c, cs)
			case "crosskind":
				cc := *c
				cc.Rep = &lib.Report{Counters: map[string]int64{}}
				c18CrossKind(&cc)
				var out []lib.Violation
				for _, v := range cc.Rep.Violations {
					if cv, ok := v.Case.(c18Case); ok && cv.Name == cs.Name && cv.Type == cs.Type && fmt.Sprint(cv.Ops) == fmt.Sprint(cs.Ops) && tagString(cv.Tags) == tagString(cs.Tags) {
						out = append(out, v)
					}
				}
				return out
			case "distinct":
				if len(cs.Ops) == 1 {
					cc := *c
					cc.Rep = &lib.Report{Counters: map[string]int64{}}
					c18Distinct(&cc, cs.Ops[0])
					var out []lib.Violation
					for _, v := range cc.Rep.Violations {
						if cv, ok := v.Case.(c18Case); ok && tagString(cv.Tags) == tagString(cs.Tags) {
							out = append(out, v)
						}
					}
					return out
				}
			}
			return nil
		},
		Finish: func(m *lib.Report, tier string) string {
			for _, k := range []string{"identity_cases_with_several_orders", "monitor_sequences", "accounting_sequences", "schedules:S5-collector-new-series", "schedules:S9-counter-increments"} {
				if m.Counters[k] == 0 {
					return "vacuous: counter " + k + " is zero"
				}
			}
			return ""
		},
	})
}

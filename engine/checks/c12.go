package checks

import (
	"encoding/json"
	"fmt"
	"sort"
	"time"

	"github.com/Vedant9500/WTF/internal/cache"
	"github.com/Vedant9500/WTF/internal/zzvrt/vtime"
	"github.com/Vedant9500/WTF/zzverif/lib"
)

// C12 — the result cache is a correct bounded LRU with a staleness limit.
// Engine E1: (a) sequence mode: every operation sequence of length d over a
// 16-operation alphabet on the real LRUCache under the virtual clock, against
// a list-based reference model, all observers compared after every step;
// (b) graph mode: breadth-first search to a fixed point over canonical model
// states, every edge executed on a fresh real instance.

type lruOp struct {
	Kind string `json:"op"` // put get del clear sweep adv
	Key  string `json:"key,omitempty"`
	Val  int    `json:"val,omitempty"`
	Adv  int64  `json:"adv,omitempty"` // ticks
}

func (o lruOp) String() string {
	switch o.Kind {
	case "put":
		return fmt.Sprintf("Put(%s,%d)", o.Key, o.Val)
	case "get", "del":
		return fmt.Sprintf("%s(%s)", o.Kind, o.Key)
	case "adv":
		return fmt.Sprintf("Advance(%d)", o.Adv)
	}
	return o.Kind
}

const lruTick = time.Millisecond

type lruCfg struct {
	Cap int   `json:"cap"`
	TTL int64 `json:"ttl_ticks"` // 0 = unlimited
}

func lruAlphabet(cfg lruCfg) []lruOp {
	var ops []lruOp
	for _, k := range []string{"a", "b", "c"} {
		ops = append(ops, lruOp{Kind: "get", Key: k})
	}
	for _, k := range []string{"a", "b", "c"} {
		for _, v := range []int{1, 2} {
			ops = append(ops, lruOp{Kind: "put", Key: k, Val: v})
		}
	}
	for _, k := range []string{"a", "b", "c"} {
		ops = append(ops, lruOp{Kind: "del", Key: k})
	}
	ops = append(ops, lruOp{Kind: "clear"}, lruOp{Kind: "sweep"})
	if cfg.TTL > 0 {
		ops = append(ops, lruOp{Kind: "adv", Adv: cfg.TTL/2 + 1}, lruOp{Kind: "adv", Adv: cfg.TTL + 1})
	}
	return ops
}

type mEnt struct {
	key     string
	val     int
	created int64
	stored  int64
}

type lruModel struct {
	cap                     int
	ttl                     int64
	ents                    []mEnt // index 0 = most recently used
	hits, misses, evictions int64
	now                     int64
}

func (m *lruModel) find(k string) int {
	for i := range m.ents {
		if m.ents[i].key == k {
			return i
		}
	}
	return -1
}

func (m *lruModel) toFront(i int) {
	e := m.ents[i]
	copy(m.ents[1:i+1], m.ents[:i])
	m.ents[0] = e
}

func (m *lruModel) remove(i int) { m.ents = append(m.ents[:i], m.ents[i+1:]...) }

func (m *lruModel) expiredByCreation(e mEnt) bool { return m.ttl > 0 && m.now-e.created > m.ttl }
func (m *lruModel) expiredByStore(e mEnt) bool    { return m.ttl > 0 && m.now-e.stored > m.ttl }

// canon is the canonical form used for graph-mode de-duplication. Argument
// for the abstraction: no method reads AccessedAt/AccessCount; counters are
// read only by Stats and reset by Clear (they never influence other results),
// and an age matters only through the comparison with ttl, so ages saturate
// at ttl+1.
func (m *lruModel) canon() string {
	s := ""
	for _, e := range m.ents {
		ca, sa := m.now-e.created, m.now-e.stored
		if m.ttl > 0 {
			if ca > m.ttl {
				ca = m.ttl + 1
			}
			if sa > m.ttl {
				sa = m.ttl + 1
			}
		} else {
			ca, sa = 0, 0
		}
		s += fmt.Sprintf("%s%d/%d/%d;", e.key, e.val, ca, sa)
	}
	return s
}

type lruRun struct {
	cfg lruCfg
	c   *cache.LRUCache
	m   *lruModel
}

func newLRURun(cfg lruCfg) *lruRun {
	vtime.Enable()
	ttl := time.Duration(cfg.TTL) * lruTick
	c := cache.NewLRUCache(cfg.Cap, ttl)
	capEff := cfg.Cap
	if capEff <= 0 {
		capEff = 100
	}
	return &lruRun{cfg: cfg, c: c, m: &lruModel{cap: capEff, ttl: cfg.TTL}}
}

// step applies op to implementation and model; it returns a description of
// the first disagreement ("" if none) and an observation string.
func (r *lruRun) step(op lruOp) (bad string, obs string) {
	m := r.m
	before := append([]mEnt(nil), m.ents...)
	switch op.Kind {
	case "adv":
		vtime.Advance(time.Duration(op.Adv) * lruTick)
		m.now += op.Adv
		obs = "adv"
	case "put":
		r.c.Put(op.Key, op.Val)
		if i := m.find(op.Key); i >= 0 {
			m.ents[i].val = op.Val
			m.ents[i].stored = m.now
			m.toFront(i)
		} else {
			m.ents = append([]mEnt{{op.Key, op.Val, m.now, m.now}}, m.ents...)
			if len(m.ents) > m.cap {
				m.ents = m.ents[:len(m.ents)-1]
				m.evictions++
			}
		}
		obs = "put"
	case "get":
		v, ok := r.c.Get(op.Key)
		obs = fmt.Sprintf("get=%v,%v", v, ok)
		i := m.find(op.Key)
		switch {
		case i < 0:
			m.misses++
			if ok {
				return fmt.Sprintf("Get(%s) hit (%v) but the key is not in the cache", op.Key, v), obs
			}
		case m.expiredByStore(m.ents[i]):
			m.misses++
			m.remove(i)
			if ok {
				return fmt.Sprintf("Get(%s) returned %v, a value stored longer ago than the lifetime", op.Key, v), obs
			}
		case m.expiredByCreation(m.ents[i]):
			// window: value refreshed within the lifetime but entry created before it: either answer is accepted
			if ok {
				if v != m.ents[i].val {
					return fmt.Sprintf("Get(%s) returned %v, last stored value is %d", op.Key, v, m.ents[i].val), obs
				}
				m.hits++
				m.toFront(i)
			} else {
				m.misses++
				m.remove(i)
			}
		default:
			if !ok {
				m.misses++ // keep counters aligned for later comparison
				return fmt.Sprintf("Get(%s) missed although the entry is present and within its lifetime", op.Key), obs
			}
			if v != m.ents[i].val {
				return fmt.Sprintf("Get(%s) returned %v, last stored value is %d", op.Key, v, m.ents[i].val), obs
			}
			m.hits++
			m.toFront(i)
		}
	case "del":
		ok := r.c.Delete(op.Key)
		obs = fmt.Sprintf("del=%v", ok)
		i := m.find(op.Key)
		if i < 0 {
			if ok {
				return fmt.Sprintf("Delete(%s) reported success for an absent key", op.Key), obs
			}
		} else {
			exp := m.expiredByCreation(m.ents[i])
			m.remove(i)
			if !ok && !exp {
				return fmt.Sprintf("Delete(%s) reported failure for a present key", op.Key), obs
			}
		}
	case "clear":
		r.c.Clear()
		m.ents = nil
		m.hits, m.misses, m.evictions = 0, 0, 0
		obs = "clear"
	case "sweep":
		n := r.c.CleanupExpired()
		obs = fmt.Sprintf("sweep=%d", n)
		keys := r.keySet()
		removed := 0
		var kept []mEnt
		for _, e := range m.ents {
			if keys[e.key] {
				kept = append(kept, e)
				continue
			}
			removed++
			if !m.expiredByCreation(e) {
				return fmt.Sprintf("sweep removed %s which is not expired", e.key), obs
			}
		}
		m.ents = kept
		if removed != n {
			return fmt.Sprintf("sweep returned %d but %d entries disappeared", n, removed), obs
		}
	}
	// --- observers after every step
	keys := r.keySet()
	// expired entries may vanish silently (lazy purge); anything else may not
	var kept []mEnt
	for _, e := range m.ents {
		if keys[e.key] {
			kept = append(kept, e)
		} else if !m.expiredByCreation(e) || op.Kind == "adv" {
			return fmt.Sprintf("after %s key %s vanished although present and live (before: %v)", op, e.key, entKeys(before)), obs
		}
	}
	m.ents = kept
	for k := range keys {
		if m.find(k) < 0 {
			return fmt.Sprintf("after %s key %s is in the cache but should not be (model: %v)", op, k, entKeys(m.ents)), obs
		}
	}
	if sz := r.c.Size(); sz != len(m.ents) {
		return fmt.Sprintf("after %s Size()=%d, model holds %d", op, sz, len(m.ents)), obs
	}
	if len(m.ents) > m.cap {
		return fmt.Sprintf("after %s cache holds %d entries, capacity %d", op, len(m.ents), m.cap), obs
	}
	if r.c.Capacity() != m.cap {
		return fmt.Sprintf("Capacity()=%d want %d", r.c.Capacity(), m.cap), obs
	}
	st := r.c.Stats()
	hr := 0.0
	if m.hits+m.misses > 0 {
		hr = float64(m.hits) / float64(m.hits+m.misses)
	}
	if st.Hits != m.hits || st.Misses != m.misses || st.Evictions != m.evictions || st.Size != len(m.ents) || st.Capacity != m.cap || st.HitRatio != hr {
		return fmt.Sprintf("after %s Stats()=%+v, model hits=%d misses=%d evictions=%d size=%d cap=%d ratio=%v",
			op, st, m.hits, m.misses, m.evictions, len(m.ents), m.cap, hr), obs
	}
	obs += fmt.Sprintf("|%d|%v", st.Size, sortedKeys(keys))
	return "", obs
}

func entKeys(es []mEnt) []string {
	var s []string
	for _, e := range es {
		s = append(s, e.key)
	}
	return s
}

func sortedKeys(m map[string]bool) []string {
	var s []string
	for k := range m {
		s = append(s, k)
	}
	sort.Strings(s)
	return s
}

func (r *lruRun) keySet() map[string]bool {
	ks := r.c.Keys()
	m := make(map[string]bool, len(ks))
	for _, k := range ks {
		m[k] = true
	}
	return m
}

type lruCase struct {
	Cfg lruCfg  `json:"config"`
	Ops []lruOp `json:"ops"`
}

func runLRUCase(cs lruCase) (viol *lib.Violation, obs string, final string) {
	r := newLRURun(cs.Cfg)
	defer vtime.Disable()
	for i, op := range cs.Ops {
		bad, o := r.step(op)
		obs += o + ";"
		if bad != "" {
			seq := ""
			for _, x := range cs.Ops[:i+1] {
				seq += x.String() + " "
			}
			return &lib.Violation{Key: "lru-model:" + op.Kind, What: bad, Case: lruCase{cs.Cfg, cs.Ops[:i+1]},
				Observed: bad, Expected: "agreement with the reference LRU+TTL model after every step",
				GoTest: fmt.Sprintf("// cache.NewLRUCache(%d, %d*time.Millisecond) under a virtual clock; ops: %s", cs.Cfg.Cap, cs.Cfg.TTL, seq)}, obs, ""
		}
	}
	return nil, obs, r.m.canon()
}

// lruDefaultCapScenario: fill-and-overflow for capacities beyond the sequence explorer's 1..3: the non-positive
// ones (replaced by the default 100) and explicit larger ones. cap+extra distinct puts must leave exactly cap
// entries, count exactly extra evictions and discard exactly the entries used longest ago.
func lruDefaultCapScenario(c *lib.Ctx, capArg int) {
	vtime.Enable()
	defer vtime.Disable()
	wantCap := capArg
	if capArg <= 0 {
		wantCap = 100
	}
	for _, refresh := range []bool{false, true} {
		for _, extra := range []int{1, 2, 3} {
			lc := cache.NewLRUCache(capArg, 0)
			c.Rep.Evaluations++
			c.Count("overflow_scenarios", 1)
			if lc.Capacity() != wantCap {
				c.Violate(lib.Violation{Key: "lru-default-capacity", What: fmt.Sprintf("NewLRUCache(%d) capacity %d, want %d", capArg, lc.Capacity(), wantCap),
					Case: map[string]any{"scenario": "default-capacity", "cap": capArg}})
				return
			}
			n := wantCap + extra
			var order []string // reference: keys from least to most recently used
			gone := map[string]bool{}
			touch := func(k string, isPut bool) {
				for i, o := range order {
					if o == k {
						order = append(append(order[:i:i], order[i+1:]...), k)
						return
					}
				}
				if isPut {
					order = append(order, k)
					if len(order) > wantCap {
						gone[order[0]] = true
						order = order[1:]
					}
				}
			}
			for i := 0; i < n; i++ {
				if refresh && i == wantCap/2 {
					lc.Get("k0")
					touch("k0", false)
				}
				k := fmt.Sprintf("k%d", i)
				lc.Put(k, i)
				touch(k, true)
			}
			st := lc.Stats()
			bad := ""
			if st.Size != wantCap || st.Evictions != int64(extra) || lc.Size() != wantCap {
				bad = fmt.Sprintf("size=%d evictions=%d, want %d and %d", st.Size, st.Evictions, wantCap, extra)
			}
			for i := 0; i < n && bad == ""; i++ {
				k := fmt.Sprintf("k%d", i)
				if _, has := lc.Get(k); has == gone[k] {
					bad = fmt.Sprintf("has(%s)=%v, want %v", k, has, !gone[k])
				}
			}
			if bad != "" {
				c.Violate(lib.Violation{Key: "lru-default-capacity", What: fmt.Sprintf("cap arg %d refresh=%v: after %d distinct puts: %s", capArg, refresh, n, bad),
					Case: map[string]any{"scenario": "default-capacity", "cap": capArg, "refresh": refresh, "extra": extra}})
			}
		}
	}
}

func c12Run(c *lib.Ctx) {
	type job struct {
		cfg   lruCfg
		depth int
	}
	var jobs []job
	for _, cp := range []int{1, 2, 3} {
		for _, ttl := range []int64{0, 10, 1000000} {
			d := 5
			if cp == 2 {
				d = 6
			}
			if c.Thorough() {
				d = 6
				if cp == 2 {
					d = 7
				}
			}
			jobs = append(jobs, job{lruCfg{cp, ttl}, d})
		}
	}
	if c.Shard == 0 {
		for _, capArg := range []int{0, -1, 4, 64, 127, 128, 129, 256, 1000, 1024} {
			lruDefaultCapScenario(c, capArg)
		}
	}
	selfChecked := 0
	seenFinal := map[string]bool{}
	for _, j := range jobs {
		alpha := lruAlphabet(j.cfg)
		n := int64(len(alpha))
		total := int64(1)
		for i := 0; i < j.depth; i++ {
			total *= n
		}
		ops := make([]lruOp, j.depth)
		for idx := int64(c.Shard); idx < total; idx += int64(c.NShards) {
			if idx%4096 == int64(c.Shard) && c.Expired() {
				c.Rep.Cap = fmt.Sprintf("internal deadline during cap=%d ttl=%d depth=%d at index %d of %d", j.cfg.Cap, j.cfg.TTL, j.depth, idx, total)
				return
			}
			x := idx
			for k := j.depth - 1; k >= 0; k-- {
				ops[k] = alpha[x%n]
				x /= n
			}
			cs := lruCase{j.cfg, ops}
			v, obs, fin := runLRUCase(cs)
			c.Rep.Evaluations++
			c.Rep.Transitions += int64(j.depth)
			if selfChecked < 64 {
				selfChecked++
				_, obs2, _ := runLRUCase(cs)
				if obs2 != obs {
					c.Fail("harness nondeterminism: sequence %v gave %q then %q", cs.Ops, obs, obs2)
					return
				}
			}
			if v != nil {
				cp := lruCase{j.cfg, append([]lruOp(nil), v.Case.(lruCase).Ops...)}
				v.Case = cp
				if !lib.Confirm(4, v.Key, func() []lib.Violation {
					if vv, _, _ := runLRUCase(cp); vv != nil {
						return []lib.Violation{*vv}
					}
					return nil
				}) {
					c.Fail("violation not reproducible: %s", v.What)
					return
				}
				c.Violate(*v)
				continue
			}
			if !seenFinal[fin] {
				seenFinal[fin] = true
			}
			if len(cs.Ops) > 0 && c.Rep.Evaluations%500000 == 1 {
				c.Sample(map[string]any{"config": j.cfg, "ops": fmt.Sprint(ops), "observations": obs})
			}
		}
	}
	c.Rep.Nontrivial = int64(len(seenFinal))
	c.Count("distinct_final_model_states", int64(len(seenFinal)))
	// graph mode on worker-sharded configs
	lruGraph(c)
}

// lruGraph: BFS to a fixed point over canonical model states; successor =
// replay of the shortest path on a fresh real instance + one operation.
func lruGraph(c *lib.Ctx) {
	cfgs := []lruCfg{{1, 10}, {2, 10}, {3, 10}, {2, 0}, {3, 0}, {1, 0}, {3, 7}, {2, 1}}
	for ci, cfg := range cfgs {
		if ci%c.NShards != c.Shard {
			continue
		}
		alpha := lruAlphabet(cfg)
		type node struct{ path []lruOp }
		seen := map[string]bool{}
		_, _, root := runLRUCase(lruCase{cfg, nil})
		seen[root] = true
		frontier := []node{{nil}}
		states, trans := int64(1), int64(0)
		for len(frontier) > 0 {
			if c.Expired() {
				c.Rep.Cap = fmt.Sprintf("internal deadline in graph mode cfg=%+v after %d states", cfg, states)
				return
			}
			nd := frontier[0]
			frontier = frontier[1:]
			for _, op := range alpha {
				path := append(append([]lruOp(nil), nd.path...), op)
				v, _, fin := runLRUCase(lruCase{cfg, path})
				trans++
				c.Rep.Traces++
				if v != nil {
					c.Violate(*v)
					continue
				}
				if !seen[fin] {
					seen[fin] = true
					states++
					frontier = append(frontier, node{path})
				}
			}
		}
		c.Rep.States += states
		c.Rep.Transitions += trans
		c.Count(fmt.Sprintf("graph_states_cap%d_ttl%d", cfg.Cap, cfg.TTL), states)
		if ci == 1 {
			c.Sample(map[string]any{"graph_config": cfg, "states": states, "transitions": trans})
		}
	}
}

func init() {
	lib.Register(&lib.Check{
		ID: "C12", Level: "model_checking", Graph: true,
		Rule:      "sequence mode: every operation sequence of length d (quick 5, 6 for capacity 2; thorough 6/7) over {Get,Put(v1|v2),Delete}x{a,b,c}+Clear+CleanupExpired+2 clock advances, per (capacity 1..3) x (ttl 0,10,1e6 ticks), executed on a fresh real LRUCache under the virtual clock with Size/Capacity/Stats/Keys compared with the reference model after every step; evaluations = sequences executed; distinct_nontrivial = distinct canonical final model states reached (measured per worker, summed); graph mode: BFS to a fixed point over canonical model states (8 configurations), states/transitions counted, every transition executed on the implementation (traces_validated_against_impl); plus the fill-and-overflow scenario (capacity+1..3 distinct puts, with and without a refreshing read: exact size, eviction count and victims) for capacity arguments 0 and -1 (replaced by the default 100), 4, 64, 127, 128, 129, 256, 1000 (the search cache's) and 1024",
		Assume:    []string{"clock owned through vtime (time.Now/Since rewritten by vinstr)", "map iteration order pinned (sorted) by vmap", "AccessedAt/AccessCount are write-only fields"},
		QuickSecs: 240, ThorSecs: 1500,
		Run: c12Run,
		Replay: func(c *lib.Ctx, raw json.RawMessage) []lib.Violation {
			var probe map[string]any
			json.Unmarshal(raw, &probe)
			if probe["scenario"] == "default-capacity" {
				lruDefaultCapScenario(c, int(probe["cap"].(float64)))
				return c.Rep.Violations
			}
			var cs lruCase
			if err := json.Unmarshal(raw, &cs); err != nil {
				return nil
			}
			if v, _, _ := runLRUCase(cs); v != nil {
				v.Property = "C12"
				return []lib.Violation{*v}
			}
			return nil
		},
		Finish: func(m *lib.Report, tier string) string {
			if m.Exhaustive && m.States < 1000 {
				return fmt.Sprintf("vacuous: only %d graph states", m.States)
			}
			return ""
		},
	})
}

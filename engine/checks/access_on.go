//go:build !noaccessor

package checks

import (
	"github.com/Vedant9500/WTF/internal/cli"
	"github.com/Vedant9500/WTF/internal/database"
	"github.com/Vedant9500/WTF/internal/embedding"
)

// Accessors injected by the build overlay (engine/access). If they do not
// compile against a changed tree, bin/check rebuilds with -tags noaccessor and
// the checks fall back to documented constants / process-level driving.

const accMode = "overlay accessors"

type bm25Params struct {
	K1                        float64
	BCmd, BDesc, BKeys, BTags float64
	WCmd, WDesc, WKeys, WTags float64
	MinIDF                    float64
}

func accParams(db *database.Database) bm25Params {
	p := database.VerifParams(db)
	return bm25Params{K1: p.K1, BCmd: p.BCmd, BDesc: p.BDesc, BKeys: p.BKeys, BTags: p.BTags,
		WCmd: p.WCmd, WDesc: p.WDesc, WKeys: p.WKeys, WTags: p.WTags, MinIDF: p.MinIDF}
}

func accSetEmbedding(db *database.Database, idx *embedding.Index) bool {
	database.VerifSetEmbeddingIndex(db, idx)
	return true
}

func accSave(path string, e database.Command) (error, bool) {
	return cli.VerifSaveToPersonalDatabase(path, e), true
}

package checks

import (
	"encoding/json"
	"fmt"
	"math"
	"sort"
	"strconv"
	"strings"

	"github.com/Vedant9500/WTF/internal/zzvrt/vhost"
	"github.com/Vedant9500/WTF/internal/zzvrt/vmap"
	"github.com/Vedant9500/WTF/zzverif/lib"
)

// C02 — same database, query and options always give the same ranked answer.
// Engine E4: the Go runtime's randomised map iteration order plays the role
// of a scheduler. Every dynamic `range` over a map in the code under test is
// a choice point (vmap); an execution = load the database + search. For each
// case the canonical execution (sorted keys everywhere) is compared with every
// execution that deviates at <=d points (d=1 quick, d=2 thorough on the
// tie-rich databases), where a deviating point takes every permutation (<=4
// keys) or the menu {reverse, rotate, swap first/last/middle pair, every
// adjacent transposition (<=12 keys)}.

type mapPoint struct {
	Site string `json:"site"`
	N    int    `json:"n"`
}

type mapDev struct {
	Point int   `json:"point"`
	Perm  []int `json:"perm"`
}

type c02Case struct {
	DB    dbSpec   `json:"db"`
	Query string   `json:"query_quoted"`
	Opts  Opts     `json:"options"`
	What  string   `json:"what"` // search | suggest
	Devs  []mapDev `json:"deviations,omitempty"`
}

// runOrdered executes f with the given deviations installed and returns the
// dynamic range points that were reached.
func runOrdered(devs []mapDev, f func()) []mapPoint {
	var pts []mapPoint
	byPoint := map[int][]int{}
	for _, d := range devs {
		byPoint[d.Point] = d.Perm
	}
	vmap.Choose = func(site string, n int) []int {
		i := len(pts)
		pts = append(pts, mapPoint{site, n})
		if p, ok := byPoint[i]; ok && len(p) == n {
			return p
		}
		return nil
	}
	defer func() { vmap.Choose = nil }()
	f()
	return pts
}

func identityPerm(n int) []int {
	p := make([]int, n)
	for i := range p {
		p[i] = i
	}
	return p
}

func allPerms(n int) [][]int {
	var out [][]int
	var rec func(cur []int, used []bool)
	rec = func(cur []int, used []bool) {
		if len(cur) == n {
			out = append(out, append([]int{}, cur...))
			return
		}
		for i := 0; i < n; i++ {
			if !used[i] {
				used[i] = true
				rec(append(cur, i), used)
				used[i] = false
			}
		}
	}
	rec(nil, make([]bool, n))
	return out
}

// permMenu: the non-identity permutations tried at a deviating point of n keys.
func permMenu(n int) [][]int {
	if n < 2 {
		return nil
	}
	if n <= 4 {
		return allPerms(n)[1:]
	}
	var out [][]int
	rev := make([]int, n)
	rot := make([]int, n)
	for i := 0; i < n; i++ {
		rev[i] = n - 1 - i
		rot[i] = (i + 1) % n
	}
	out = append(out, rev, rot)
	swap := func(a, b int) []int {
		p := identityPerm(n)
		p[a], p[b] = p[b], p[a]
		return p
	}
	if n <= 12 {
		for i := 0; i+1 < n; i++ {
			out = append(out, swap(i, i+1))
		}
	} else {
		out = append(out, swap(0, 1), swap(n-2, n-1), swap(n/2-1, n/2), swap(n/3, n/3+1), swap(2*n/3, 2*n/3+1), swap(0, n-1))
	}
	return out
}

func c02Exec(c *lib.Ctx, cs c02Case) (obs string, pts []mapPoint, pv any) {
	q, _ := strconv.Unquote(cs.Query)
	pts = runOrdered(cs.Devs, func() {
		defer func() { pv = recover() }()
		db := cs.DB.build(c) // load under the explored order: index and re-ranker are built here
		if cs.What == "suggest" {
			obs = strings.Join(db.GetSuggestions(q, cs.Opts.Limit), "\x00")
			return
		}
		// identify results by their text AND their position: a loader that orders the merged commands
		// differently must show up as a different answer, and so must a different choice among entries
		// whose texts are identical
		var sb strings.Builder
		for _, r := range db.SearchUniversal(q, cs.Opts) {
			fmt.Fprintf(&sb, "%s#%d:%016x;", r.Command.Command, uIndexOf(db, r.Command), math.Float64bits(r.Score))
		}
		obs = sb.String()
	})
	return
}

var c02PoolIdx = []int{0, 1, 2, 3, 4, 5, 8, 12, 21, 22}

func c02DBs(thorough bool) []dbSpec {
	out := []dbSpec{{Special: "identical12"}}
	k := 2
	for _, s := range uSequences(len(c02PoolIdx), k) {
		idx := make([]int, len(s))
		dup := false
		for i, j := range s {
			idx[i] = c02PoolIdx[j]
			if i > 0 && s[i] == s[i-1] {
				dup = true
			}
		}
		_ = dup
		out = append(out, dbSpec{Pool: idx})
	}
	triples := [][]int{{0, 1, 4}, {1, 0, 22}, {4, 5, 21}, {5, 4, 21}, {21, 4, 5}, {8, 12, 22}, {12, 8, 5}, {2, 3, 0}, {0, 0, 0}, {22, 22, 4}, {4, 5, 4, 5}, {0, 1, 2, 3, 4, 5, 8, 12, 21, 22}}
	if thorough {
		for _, s := range uSequences(5, 3) {
			idx := make([]int, len(s))
			for i, j := range s {
				idx[i] = c02PoolIdx[j]
			}
			triples = append(triples, idx)
		}
	}
	for _, t := range triples {
		out = append(out, dbSpec{Pool: t})
	}
	// main file + personal notebook (merged by the loader): equal-scoring notebook entries
	out = append(out, dbSpec{Pool: []int{4}, Personal: []int{0, 1, 2, 3}}, dbSpec{Pool: []int{0, 22}, Personal: []int{0, 1, 2, 3, 4, 5}}, dbSpec{Pool: []int{}, Personal: []int{2, 1, 0}})
	out = append(out, dbSpec{Special: "sugties"}, dbSpec{Special: "shortdocs"}, dbSpec{Special: "forty"}, dbSpec{Special: "embedded"})
	return out
}

var c02Queries = []string{"git", "files", "compress files", "git commit", "list files", "compress", "record changes repository", "zip archive files", "comprss", "fils", "gt", "show folder", "tar", "deploy", "release app",
	// long queries: more distinct vocabulary words than a matching command has (sparse dot products)
	"git commit msg record changes repository save vcs push files compress", "compress files zip archive folder directory tar list find name count lines",
	"rotate and compress the nightly nginx backup logs fast then archive old files", "sync remote backup host directories nightly schedule jobs logs cleanup",
	// several misspelt words, in an order in which no entry has them (typo fallback word by word)
	"fils comprss", "sttus gt comit", "flies gti", "remot psh", "fils psh gt", "comprss fils", "archve zp"}

func c02Options() []Opts {
	var out []Opts
	for _, nlp := range []bool{false, true} {
		for _, fz := range []bool{false, true} {
			for _, lim := range []int{1, 2, 50} {
				out = append(out, Opts{Limit: lim, UseNLP: nlp, UseFuzzy: fz, AllPlatforms: true})
			}
		}
	}
	// context boosts whose keys differ only in letter case (package.json scripts "build" and "Build" give that)
	out = append(out, Opts{Limit: 2, UseNLP: true, AllPlatforms: true, ContextBoosts: map[string]float64{"files": 1.5, "Files": 1.3, "FILES": 2, "git": 1.2, "Git": 3, "compress": 1.1, "Compress": 2.5}})
	return out
}

func c02Violation(cs c02Case, canon, got string, pts []mapPoint) *lib.Violation {
	site := "?"
	if len(cs.Devs) > 0 && cs.Devs[0].Point < len(pts) {
		site = pts[cs.Devs[0].Point].Site
	}
	kind := "order-of-ties"
	// same multiset of (idx:score) items => only the order changed
	a, b := strings.Split(canon, ";"), strings.Split(got, ";")
	sort.Strings(a)
	sort.Strings(b)
	if strings.Join(a, ";") != strings.Join(b, ";") {
		kind = "scores-or-members"
	}
	if cs.What == "suggest" {
		kind = "suggestions"
	}
	return &lib.Violation{Key: kind + ":" + site,
		What: fmt.Sprintf("%s of %s on db %s differs when the map ranged at %s is visited in another order (%s)", cs.What, cs.Query, cs.DB, site, kind),
		Case: cs, Observed: got, Expected: canon}
}

func c02Run(c *lib.Ctx) {
	vhost.Set("linux")
	defer vhost.Set("")
	bound := 1
	dbs := c02DBs(c.Thorough())
	opts := c02Options()
	var caseIdx int64
	selfCheck := 0
	sites := map[string]int64{}
	answers := map[string]bool{}
	polls, aborted := 0, false
	for _, spec := range dbs {
		qs := c02Queries
		if spec.Special == "" && spec.Personal == nil && len(spec.Pool) <= 2 {
			qs = c02Queries[:13] // the long queries need databases with a larger vocabulary
		}
		if spec.Special == "embedded" {
			// the semantic stage: query words inside and outside the embedding vocabulary
			qs = []string{"file compress", "compress file list", "files", "git file", "filing tar", "list"}
		}
		if spec.Special == "forty" {
			// each execution costs ~1 ms and a case has thousands of schedules: six queries
			qs = []string{"git", "compress files", "comprss", "list files", c02Queries[15], c02Queries[17]}
		}
		for _, q := range qs {
			for oi := 0; oi <= len(opts); oi++ {
				caseIdx++
				if !c.Mine(caseIdx) {
					continue
				}
				if c.Expired() {
					return
				}
				cs := c02Case{DB: spec, Query: strconv.Quote(q), What: "search"}
				if oi == len(opts) {
					cs.What = "suggest"
					cs.Opts = Opts{Limit: 3}
				} else {
					cs.Opts = opts[oi]
				}
				if spec.Special == "forty" && oi%3 != 1 && oi != len(opts) {
					continue // the 40-entry database: limit 2 only (each execution is ~1 ms, thousands of schedules)
				}
				canon, pts, pv := c02Exec(c, cs)
				c.Rep.Evaluations++
				c.Rep.States++
				if pv != nil {
					c.Violate(lib.Violation{Key: "panic", What: fmt.Sprintf("panic: %v", pv), Case: cs})
					continue
				}
				if selfCheck < 64 {
					selfCheck++
					if c2, _, _ := c02Exec(c, cs); c2 != canon {
						c.Fail("harness nondeterminism under the pinned order on %+v", cs)
					}
				}
				if strings.Count(canon, ";") >= 2 {
					// a tie exists iff two items carry the same score bits
					seen := map[string]bool{}
					for _, it := range strings.Split(canon, ";") {
						if i := strings.LastIndex(it, ":"); i >= 0 {
							if seen[it[i:]] {
								c.Count("cases_with_score_tie", 1)
								break
							}
							seen[it[i:]] = true
						}
					}
				}
				c.Count("cases", 1)
				distinct := map[string]bool{canon: true}
				var explore func(prefix []mapDev, from int, pts []mapPoint, depth int)
				explore = func(prefix []mapDev, from int, pts []mapPoint, depth int) {
					for i := from; i < len(pts); i++ {
						// a single case can have 10^5 executions: the deadline is polled inside it too
						if polls++; aborted || (polls%32 == 0 && c.Expired()) {
							aborted = true
							return
						}
						for _, perm := range permMenu(pts[i].N) {
							devs := append(append([]mapDev{}, prefix...), mapDev{i, perm})
							cs2 := cs
							cs2.Devs = devs
							got, pts2, pv := c02Exec(c, cs2)
							c.Rep.Evaluations++
							c.Rep.Transitions++
							sites[pts[i].Site]++
							if pv != nil {
								c.Violate(lib.Violation{Key: "panic", What: fmt.Sprintf("panic: %v", pv), Case: cs2})
								continue
							}
							// prefix replay must reach the same points up to the deviation
							for k := 0; k <= i && k < len(pts2); k++ {
								if pts2[k] != pts[k] {
									c.Fail("replay divergence: point %d is %v, was %v", k, pts2[k], pts[k])
								}
							}
							distinct[got] = true
							if got != canon {
								if v := c02Violation(cs2, canon, got, pts); v != nil {
									c.Violate(*v)
								}
							}
							if depth > 1 {
								explore(devs, i+1, pts2, depth-1)
							}
						}
					}
				}
				d := bound
				if c.Thorough() && spec.Special == "" && len(spec.Pool) <= 3 && oi%3 == 1 && len(pts) <= 32 {
					// two deviating points at once: quadratic in the number of range points, so only where there are few
					d = 2
					c.Count("cases_with_two_deviating_points", 1)
				}
				explore(nil, 0, pts, d)
				if aborted {
					return
				}
				if len(distinct) > 1 {
					c.Count("cases_with_more_than_one_answer", 1)
				}
				if canon != "" {
					c.Rep.Nontrivial++
					answers[canon] = true
				}
				if caseIdx%701 == 3 {
					c.Sample(map[string]any{"case": cs, "range_points": len(pts), "canonical_answer": canon, "distinct_answers": len(distinct)})
				}
			}
		}
	}
	for s, n := range sites {
		c.Count("deviated_at:"+s, n)
	}
	c02Schedules(c)
	c02Processes(c)
	c.Rep.Traces = c.Rep.Evaluations
}

func init() {
	lib.Register(&lib.Check{
		ID: "C02", Level: "model_checking",
		Rule:      "map-iteration-order exploration (the runtime's randomised order as scheduler): for every case = (database: 12 identical entries, all sequences of <=2 of a 10-entry tie-rich pool, 12 (quick) / 137 (thorough) longer sequences, the 40-entry database, a 14-entry database of short overlapping entries, 3 main+notebook pairs merged by LoadDatabaseWithPersonal with equal-scoring notebook entries, 6 entries with an in-memory embedding index attached whose vocabulary lacks a query word but has longer forms of it) x 26 queries (lexical, 11-13-word, NLP-expanded, typo-fallback with one and with several misspelt words) x ({NLP, fuzzy} x limit {1,2,50} + one option set with context boosts whose keys differ only in letter case) + GetSuggestions, the execution 'load the database through the real loader, then search' is run under the canonical order and under every schedule deviating at <=1 dynamic range point (thorough: <=2 for the limit-2 cases of databases of <=3 entries whose execution has <=32 range points), a deviating point taking every permutation (<=4 keys) or reverse / rotate / every adjacent transposition (<=12 keys) / 6 spread transpositions (more keys); the ordered (entry, score-bits) list must be identical. states = cases (canonical executions); transitions = deviating executions; every execution runs the real code (traces validated = evaluations). non-trivial = cases with a non-empty answer. Process form: the instrumented binary (`wtf --format json -v`) is run under four forced whole-process map orders (sorted, reverse, rotate, swap) on 30 (database, query) cases and on the shipped 6,619-entry database for 40 queries, and the plain binary five times per case; outputs must be byte-identical after dropping the timing line. Schedule form: goroutines started by the search itself (rewritten go statements) run under the controlled scheduler; 6 (database, query) cases on a 320-entry look-alike database and the shipped one, every interleaving with <=2 preemptions must give the canonical answer (a single execution each while the search starts no goroutine)",
		Assume:    []string{"all map ranges of the repository are routed through vmap by the build overlay (sites listed under instrumentation)", "sort.Slice is deterministic for a given input order", "maps with more than 4 keys get the menu, not all n! orders"},
		QuickSecs: 360, ThorSecs: 3000, Graph: true,
		Run: c02Run,
		Replay: func(c *lib.Ctx, raw json.RawMessage) []lib.Violation {
			vhost.Set("linux")
			defer vhost.Set("")
			var cs c02Case
			if json.Unmarshal(raw, &cs) != nil {
				return nil
			}
			base := cs
			base.Devs = nil
			canon, pts, _ := c02Exec(c, base)
			got, _, _ := c02Exec(c, cs)
			if got != canon {
				return []lib.Violation{*c02Violation(cs, canon, got, pts)}
			}
			return nil
		},
		Finish: func(m *lib.Report, tier string) string {
			if !m.Exhaustive {
				return ""
			}
			if m.Counters["cases"] == 0 || m.Counters["cases_with_score_tie"] < 500 {
				return fmt.Sprintf("vacuous: only %d of %d cases contain a score tie", m.Counters["cases_with_score_tie"], m.Counters["cases"])
			}
			n := 0
			for k := range m.Counters {
				if strings.HasPrefix(k, "deviated_at:") {
					n++
				}
			}
			if n < 6 {
				return fmt.Sprintf("vacuous: only %d map-range sites were deviating points", n)
			}
			if m.Counters["schedule_cases_with_results"] < 6 {
				return fmt.Sprintf("vacuous: only %d of the 6 schedule cases returned any result", m.Counters["schedule_cases_with_results"])
			}
			return ""
		},
	})
}

// c02Schedules: goroutines the search itself starts (rewritten `go` statements) are threads of the
// controlled scheduler; every interleaving of one SearchUniversal call with <=2 preemptions must give
// the canonical answer. On a tree whose search starts no goroutine this is a single execution per case.
func c02Schedules(c *lib.Ctx) {
	if c.Shard >= 4 {
		return
	}
	// 320 entries: every 8th is one of a family of 40 look-alikes (same words apart from their own name, hence
	// exactly equal lexical score and TF-IDF similarity); the rest is unrelated filler, so the family's words
	// keep a useful IDF. The tie straddles the middle of the list, the NLP candidate window and any top list.
	var cmds []Cmd
	for i := 0; i < 320; i++ {
		if i%8 == 0 {
			cmds = append(cmds, Cmd{Command: fmt.Sprintf("unit%04d reload", i), Description: "reload unit", Keywords: []string{"reload"}})
		} else {
			cmds = append(cmds, Cmd{Command: fmt.Sprintf("filler%04d run", i), Description: fmt.Sprintf("job number%04d of the nightly batch", i), Keywords: []string{fmt.Sprintf("batch%04d", i)}})
		}
	}
	db := uMustDB(c, cmds)
	shipped := dbSpec{Special: "shipped"}.build(c)
	type sc struct {
		db   string
		q    string
		opts Opts
	}
	cases := []sc{
		{"lookalike320", "reload unit", Opts{Limit: 5, UseNLP: true, AllPlatforms: true}},
		{"lookalike320", "reload unit", Opts{Limit: 3, UseNLP: true, UseFuzzy: true, AllPlatforms: true}},
		{"lookalike320", "nightly batch", Opts{Limit: 4, AllPlatforms: true}},
		{"shipped", "disk usage", Opts{Limit: 5, UseNLP: true, UseFuzzy: true, FuzzyThreshold: -30}},
		{"shipped", "move disk", Opts{Limit: 5, UseNLP: true}},
		{"shipped", "compress files", Opts{Limit: 10, UseNLP: true}},
	}
	for i, cs := range cases {
		if i%4 != c.Shard {
			continue
		}
		d := db
		if cs.db == "shipped" {
			d = shipped
		}
		canon := ""
		nonEmpty := false
		var bad *lib.Violation
		e := &schedExplorer{Bound: 2, MaxExecs: 3000}
		e.Body = func() ([]func(), func(*schedExec)) {
			var got string
			body := func() {
				var sb strings.Builder
				for _, r := range d.SearchUniversal(cs.q, cs.opts) {
					fmt.Fprintf(&sb, "%s:%016x;", r.Command.Command, math.Float64bits(r.Score))
				}
				sb.WriteString(" | nlp: ")
				for _, r := range d.SearchWithNLP(cs.q, cs.opts) {
					fmt.Fprintf(&sb, "%s:%016x;", r.Command.Command, math.Float64bits(r.Score))
				}
				got = sb.String()
				if strings.Count(got, ":") > 0 {
					nonEmpty = true
				}
			}
			return []func(){body}, func(x *schedExec) {
				if canon == "" {
					canon = got
				}
				if got != canon && bad == nil {
					bad = &lib.Violation{Key: "schedule-dependent-answer:" + cs.db, What: fmt.Sprintf("SearchUniversal / SearchWithNLP (%q) on the %s database give a different answer depending on how the goroutines it starts are interleaved [schedule: %s]", cs.q, cs.db, schedDescribe(x)),
						Case: c02Case{Query: q(cs.q), Opts: cs.opts, What: "schedule:" + cs.db}, Observed: truncStr(got, 800), Expected: truncStr(canon, 800)}
				}
			}
		}
		e.Explore()
		c.Rep.Evaluations += e.Execs
		c.Rep.Transitions += e.Execs
		c.Count("schedule_cases", 1)
		if nonEmpty {
			c.Count("schedule_cases_with_results", 1)
		}
		c.Count("schedule_executions", e.Execs)
		c.Count("goroutines_started_by_search", int64(e.Spawned))
		if bad != nil {
			c.Violate(*bad)
		}
		if e.Stuck {
			c.Note("schedule exploration abandoned for %q: an execution blocked outside the controlled scheduler", cs.q)
			c.Rep.Exhaustive = false
			c.Rep.Cap = "search blocks on a primitive the scheduler does not control"
			return
		}
	}
}

package checks

import (
	"compress/gzip"
	"bufio"
	"bytes"
	"encoding/binary"
	"encoding/json"
	"fmt"
	"math"
	"os"
	"os/exec"
	"path/filepath"
	"runtime"
	"strconv"
	"strings"
	"syscall"
	"time"

	"github.com/Vedant9500/WTF/internal/constants"
	"github.com/Vedant9500/WTF/internal/database"
	"github.com/Vedant9500/WTF/internal/embedding"
	"github.com/Vedant9500/WTF/internal/zzvrt/vhost"
	"github.com/Vedant9500/WTF/zzverif/lib"
)

// C19 — semantic embeddings are strictly optional and their files cannot hurt.
// (loaders) every byte prefix of a valid word-vector file and of a valid
// command-embedding file x header count / dimension / word-length overrides,
// loaded in an address-space-capped child process (a case that kills the
// child is attributed exactly, the child is restarted after it);
// the same files gzip-compressed with a true, zero and 2^32-1 length trailer; (twins) histories search, grow, search, search, grow, search on two literal databases of which one has an index attached: same entries, scores within the blend bound, after every step; (cosine) all ordered pairs of vectors of 0..3 components over a 7-value
// alphabet; (search) databases x queries x attached in-memory indexes.

// ---------------------------------------------------------------- loader cases

type c19File struct {
	Kind   string `json:"kind"`               // words | embeds
	Prefix int    `json:"prefix_bytes"`       // file = first Prefix bytes of the patched base file
	Count  int64  `json:"count,omitempty"`    // -1 keep; else header count override
	Dim    int64  `json:"dim,omitempty"`      // -1 keep (embeds)
	WLen   int    `json:"word_len,omitempty"` // -1 keep; else first word-length field override (words)
	// Wrap: the file is stored gzip-compressed (a loader that learns to read compressed files must not trust
	// the container's own length field either): gzip | gzip-isize-max | gzip-isize-0
	Wrap string `json:"wrap,omitempty"`
}

func c19BaseWords() []byte {
	var b bytes.Buffer
	binary.Write(&b, binary.LittleEndian, uint32(2))
	for wi, w := range []string{"ab", "compress"} {
		binary.Write(&b, binary.LittleEndian, uint16(len(w)))
		b.WriteString(w)
		v := make([]float32, 100)
		for i := range v {
			v[i] = float32(i%7)*0.25 - float32(wi)
		}
		binary.Write(&b, binary.LittleEndian, v)
	}
	return b.Bytes()
}

func c19BaseEmbeds() []byte {
	var b bytes.Buffer
	binary.Write(&b, binary.LittleEndian, uint32(2))
	binary.Write(&b, binary.LittleEndian, uint32(100))
	for ci := 0; ci < 2; ci++ {
		v := make([]float32, 100)
		for i := range v {
			v[i] = float32(i%5)*0.5 + float32(ci)
		}
		binary.Write(&b, binary.LittleEndian, v)
	}
	return b.Bytes()
}

var c19Counts = []int64{-1, 0, 1, 2, 3, 65536, 1 << 31, 1<<32 - 1}

func c19LoaderCases() []c19File {
	var out []c19File
	w, e := c19BaseWords(), c19BaseEmbeds()
	for l := 0; l <= len(w); l++ {
		for _, c := range c19Counts {
			out = append(out, c19File{Kind: "words", Prefix: l, Count: c, Dim: -1, WLen: -1})
		}
		for _, wl := range []int{0, 1, 65535} {
			out = append(out, c19File{Kind: "words", Prefix: l, Count: -1, Dim: -1, WLen: wl})
		}
	}
	for l := 0; l <= len(e); l++ {
		for _, c := range c19Counts {
			out = append(out, c19File{Kind: "embeds", Prefix: l, Count: c, Dim: -1, WLen: -1})
		}
	}
	for _, wrap := range []string{"gzip", "gzip-isize-max", "gzip-isize-0"} {
		// + counts that a 4 GiB payload could hold (a bound computed from a forged length lets them through)
		for _, c := range append(append([]int64{}, c19Counts...), 1<<22, 10_000_000) {
			for _, l := range []int{8, 30, len(w)} {
				out = append(out, c19File{Kind: "words", Prefix: l, Count: c, Dim: -1, WLen: -1, Wrap: wrap})
			}
			for _, l := range []int{8, 30, len(e)} {
				out = append(out, c19File{Kind: "embeds", Prefix: l, Count: c, Dim: -1, WLen: -1, Wrap: wrap})
			}
		}
	}
	for _, l := range []int{8, 12, 400, 408, len(e)} {
		for _, c := range c19Counts {
			for _, d := range []int64{0, 1, 99, 101, 1<<32 - 1} {
				out = append(out, c19File{Kind: "embeds", Prefix: l, Count: c, Dim: d, WLen: -1})
			}
		}
	}
	return out
}

func (f c19File) bytes() []byte {
	var b []byte
	if f.Kind == "words" {
		b = append([]byte{}, c19BaseWords()...)
		if f.WLen >= 0 {
			binary.LittleEndian.PutUint16(b[4:], uint16(f.WLen))
		}
	} else {
		b = append([]byte{}, c19BaseEmbeds()...)
		if f.Dim >= 0 {
			binary.LittleEndian.PutUint32(b[4:], uint32(f.Dim))
		}
	}
	if f.Count >= 0 {
		binary.LittleEndian.PutUint32(b[0:], uint32(f.Count))
	}
	if f.Prefix < len(b) {
		b = b[:f.Prefix]
	}
	if f.Wrap != "" {
		var z bytes.Buffer
		zw := gzip.NewWriter(&z)
		zw.Write(b)
		zw.Close()
		b = z.Bytes()
		switch f.Wrap {
		case "gzip-isize-max":
			binary.LittleEndian.PutUint32(b[len(b)-4:], 1<<32-1)
		case "gzip-isize-0":
			binary.LittleEndian.PutUint32(b[len(b)-4:], 0)
		}
	}
	return b
}

// c19LoadOne runs one loader case in this process and returns a violation text.
func c19LoadOne(dir string, f c19File) (bad string, obs string) {
	p := filepath.Join(dir, "c19.bin")
	data := f.bytes()
	if err := os.WriteFile(p, data, 0o644); err != nil {
		return "", "io"
	}
	var ms0, ms1 runtime.MemStats
	runtime.ReadMemStats(&ms0)
	var idx *embedding.Index
	var err error
	pv, to := guarded(30*time.Second, func() {
		if f.Kind == "words" {
			idx, err = embedding.LoadWordVectors(p)
		} else {
			idx = &embedding.Index{Dimension: 100}
			err = idx.LoadCommandEmbeddings(p)
		}
	})
	runtime.ReadMemStats(&ms1)
	if pv != nil {
		return fmt.Sprintf("loader panicked: %v", pv), "panic"
	}
	if to {
		return "loader exceeded the step budget (30 s)", "hang"
	}
	grown := ms1.TotalAlloc - ms0.TotalAlloc
	limit := uint64(64<<20) + 16*uint64(len(data))
	if grown > limit {
		return fmt.Sprintf("loader allocated %d bytes for a %d-byte file (bound %d)", grown, len(data), limit), "memory"
	}
	if err == nil {
		if idx == nil {
			return "loader returned neither vectors nor an error", "nil"
		}
		if f.Kind == "words" {
			for w, v := range idx.WordVectors {
				if len(v) != idx.Dimension {
					return fmt.Sprintf("word %q has a vector of %d components, dimension is %d", w, len(v), idx.Dimension), "dim"
				}
			}
			return "", fmt.Sprintf("ok:%d", len(idx.WordVectors))
		}
		return "", fmt.Sprintf("ok:%d", len(idx.CmdEmbeddings))
	}
	if f.Kind == "words" && idx != nil {
		return "loader returned both vectors and an error", "both"
	}
	return "", "err"
}

// child: vcheck -sub c19load <dir> <from> <to> <out>
func c19Child(args []string) int {
	if len(args) < 4 {
		return 2
	}
	// cap the address space: a header-sized allocation must fail here, not eat the machine
	lim := syscall.Rlimit{Cur: 3 << 29, Max: 3 << 29}
	syscall.Setrlimit(syscall.RLIMIT_AS, &lim)
	dir := args[0]
	from, _ := strconv.Atoi(args[1])
	to, _ := strconv.Atoi(args[2])
	out, err := os.OpenFile(args[3], os.O_CREATE|os.O_WRONLY|os.O_APPEND, 0o644)
	if err != nil {
		return 2
	}
	defer out.Close()
	cases := c19LoaderCases()
	for i := from; i < to && i < len(cases); i++ {
		fmt.Fprintf(out, "start %d\n", i)
		bad, obs := c19LoadOne(dir, cases[i])
		fmt.Fprintf(out, "done %d %s %s\n", i, obs, strconv.Quote(bad))
	}
	return 0
}

// c19Loaders drives the child over cases [from,to).
func c19Loaders(c *lib.Ctx, from, to int) {
	cases := c19LoaderCases()
	self, _ := os.Executable()
	outPath := filepath.Join(c.Scratch, "c19.out")
	next := from
	restarts := 0
	for next < to {
		os.Remove(outPath)
		cmd := exec.Command(self, "-sub", "c19load", c.Scratch, strconv.Itoa(next), strconv.Itoa(to), outPath)
		cmd.Env = append(os.Environ(), "GOMAXPROCS=2", "GOGC=50")
		var stderr bytes.Buffer
		cmd.Stderr = &stderr
		runErr := cmd.Run()
		f, err := os.Open(outPath)
		last, started := next-1, -1
		if err == nil {
			sc := bufio.NewScanner(f)
			sc.Buffer(make([]byte, 1<<20), 1<<20)
			for sc.Scan() {
				parts := strings.SplitN(sc.Text(), " ", 4)
				if parts[0] == "start" && len(parts) >= 2 {
					started, _ = strconv.Atoi(parts[1])
				}
				if parts[0] == "done" && len(parts) >= 4 {
					i, _ := strconv.Atoi(parts[1])
					last = i
					c.Rep.Evaluations++
					bad, _ := strconv.Unquote(parts[3])
					if bad != "" {
						c.Violate(lib.Violation{Key: "loader:" + parts[2] + ":" + cases[i].Kind, What: bad, Case: cases[i]})
					}
					if strings.HasPrefix(parts[2], "ok:") {
						c.Count("loads_ok", 1)
					} else if parts[2] == "err" {
						c.Count("loads_rejected", 1)
						c.Rep.Nontrivial++
					}
				}
			}
			f.Close()
		}
		if runErr == nil && last >= to-1 {
			return
		}
		// the child died inside case `started`
		if started > last {
			msg := strings.TrimSpace(stderr.String())
			if i := strings.Index(msg, "\n"); i > 0 {
				msg = msg[:i]
			}
			cs := cases[started]
			class := "count"
			if cs.Dim >= 0 {
				class = "dimension"
			}
			c.Violate(lib.Violation{Key: "loader-died:" + cs.Kind + ":" + class, What: fmt.Sprintf("loading a %d-byte %s file (header count %d, dim %d) killed the process under a 1.5 GiB address-space cap: %s (%v)", len(cs.bytes()), cs.Kind, cs.Count, cs.Dim, msg, runErr), Case: cs})
			c.Rep.Evaluations++
			c.Count("loader_deaths", 1)
			next = started + 1
			if c.Rep.Counters["loader_deaths"] >= 4 {
				// each death costs seconds; the defect is established, do not grind through every variant
				c.Rep.Exhaustive = false
				c.Rep.Cap = "stopped after 4 loader deaths in this shard"
				return
			}
		} else {
			restarts++
			if restarts > 3 {
				c.Fail("loader child keeps failing outside a case: %v %s", runErr, stderr.String())
				return
			}
			next = last + 1
		}
	}
}

// ---------------------------------------------------------------- cosine

func c19Vectors(maxDim int) [][]float32 {
	vals := []float32{0, 1, -1, 0.5, 1e-30, 3e38, -3e38}
	out := [][]float32{{}}
	for d := 1; d <= maxDim; d++ {
		for _, s := range uSequences(len(vals), d)[func() int {
			n := 0
			for k := 1; k < d; k++ {
				n += int(math.Pow(float64(len(vals)), float64(k)))
			}
			return n
		}():] {
			v := make([]float32, d)
			for i, j := range s {
				v[i] = vals[j]
			}
			out = append(out, v)
		}
	}
	return out
}

func c19Cosine(c *lib.Ctx) {
	maxDim := 3
	if c.Thorough() {
		maxDim = 4
	}
	vs := c19Vectors(maxDim)
	for i, a := range vs {
		if !c.Mine(int64(i)) {
			continue
		}
		for _, b := range vs {
			x, y := embedding.CosineSimilarity(a, b), embedding.CosineSimilarity(b, a)
			c.Rep.Evaluations++
			c.Count("cosine_pairs", 1)
			bad := ""
			zeroA, zeroB := true, true
			for _, t := range a {
				if t != 0 {
					zeroA = false
				}
			}
			for _, t := range b {
				if t != 0 {
					zeroB = false
				}
			}
			switch {
			case math.Float64bits(x) != math.Float64bits(y):
				bad = fmt.Sprintf("not symmetric: %v vs %v", x, y)
			case math.IsNaN(x) || math.Abs(x) > 1+1e-12:
				bad = fmt.Sprintf("similarity %v outside [-1,1]", x)
			case (len(a) == 0 || len(b) == 0 || len(a) != len(b) || zeroA || zeroB) && x != 0:
				bad = fmt.Sprintf("similarity %v for an empty, zero or mismatched pair must be 0", x)
			}
			if x != 0 {
				c.Rep.Nontrivial++
			}
			if bad != "" {
				c.Violate(lib.Violation{Key: "cosine", What: fmt.Sprintf("CosineSimilarity(%v, %v): %s", a, b, bad), Case: map[string]any{"a": a, "b": b}})
			}
		}
	}
}

// ---------------------------------------------------------------- search

type c19Search struct {
	DB    dbSpec `json:"db"`
	Query string `json:"query_quoted"`
	NLP   bool   `json:"nlp"`
	Index string `json:"index"`
}

func c19Index(kind string, n int) *embedding.Index {
	pool := [][]float32{{1, 0, 0}, {0, 1, 0}, {0.7, 0.7, 0}, {-1, 0, 0}, {0.1, 0.2, 0.9}}
	idx := &embedding.Index{Dimension: 3, WordVectors: map[string][]float32{
		"compress": pool[0], "files": pool[1], "git": pool[2], "tar": pool[3], "list": pool[4], "qzx": pool[0],
	}}
	switch kind {
	case "none":
		return nil
	case "full":
		for i := 0; i < n; i++ {
			idx.CmdEmbeddings = append(idx.CmdEmbeddings, pool[i%len(pool)])
		}
	case "rotated":
		for i := 0; i < n; i++ {
			idx.CmdEmbeddings = append(idx.CmdEmbeddings, pool[(i+2)%len(pool)])
		}
	case "short":
		for i := 0; i+1 < n; i++ {
			idx.CmdEmbeddings = append(idx.CmdEmbeddings, pool[i%len(pool)])
		}
	case "wrong-length":
		for i := 0; i < n; i++ {
			idx.CmdEmbeddings = append(idx.CmdEmbeddings, []float32{1, 1})
		}
	case "no-commands":
	case "overflow":
		// all components finite, but the average of two query words overflows float32
		idx.WordVectors["compress"] = []float32{3e38, 1, 0}
		idx.WordVectors["files"] = []float32{3e38, 0, 1}
		idx.WordVectors["git"] = []float32{-3e38, 3e38, 3e38}
		for i := 0; i < n; i++ {
			idx.CmdEmbeddings = append(idx.CmdEmbeddings, pool[i%len(pool)])
		}
	case "nan-row":
		// what a damaged embeddings file can contain: NaN / Inf bit patterns in a command row
		nan, inf := float32(math.NaN()), float32(math.Inf(1))
		for i := 0; i < n; i++ {
			switch i % 3 {
			case 0:
				idx.CmdEmbeddings = append(idx.CmdEmbeddings, []float32{nan, 0, 1})
			case 1:
				idx.CmdEmbeddings = append(idx.CmdEmbeddings, []float32{inf, 1, 0})
			default:
				idx.CmdEmbeddings = append(idx.CmdEmbeddings, pool[i%len(pool)])
			}
		}
	}
	return idx
}

var c19IndexKinds = []string{"full", "rotated", "short", "wrong-length", "no-commands", "overflow", "nan-row"}

func c19SearchEval(c *lib.Ctx, db *database.Database, cs c19Search) (*lib.Violation, string) {
	q, _ := strconv.Unquote(cs.Query)
	o := Opts{Limit: len(db.Commands) + 3, UseNLP: cs.NLP, AllPlatforms: true}
	var base, with []resItem
	var pv any
	func() {
		defer func() { pv = recover() }()
		accSetEmbedding(db, nil)
		base = uItems(db, db.SearchUniversal(q, o))
		accSetEmbedding(db, c19Index(cs.Index, len(db.Commands)))
		with = uItems(db, db.SearchUniversal(q, o))
		accSetEmbedding(db, nil)
	}()
	if pv != nil {
		accSetEmbedding(db, nil)
		return &lib.Violation{Key: "panic:" + cs.Index, What: fmt.Sprintf("search with a %s index panicked: %v", cs.Index, pv), Case: cs}, "panic"
	}
	obs := uDigest(base) + "|" + uDigest(with)
	mk := func(key, what string) (*lib.Violation, string) {
		return &lib.Violation{Key: key, What: what, Case: cs, Observed: with, Expected: base}, obs
	}
	if fmt.Sprint(uSortedIdx(base)) != fmt.Sprint(uSortedIdx(with)) {
		return mk("semantic-changed-candidates", "attaching an embedding index changed the set of results")
	}
	if bad := uWellFormed(with, -1); bad != "" {
		return mk("semantic-order", "with an embedding index: "+bad)
	}
	sb := map[int]float64{}
	for _, it := range base {
		sb[it.Idx] = it.Score
	}
	alpha := constants.SemanticAlpha
	for _, it := range with {
		b := sb[it.Idx]
		if it.Score < b || it.Score > b*(1+alpha)*(1+1e-12) {
			return mk("semantic-score-bound", fmt.Sprintf("entry %d: score %v with the index, %v without; must lie in [without, (1+%v)*without]", it.Idx, it.Score, b, alpha))
		}
	}
	return nil, obs
}

// c19Twins: two databases built from the same literal command list (no loader, hence no re-ranker),
// one with an embedding index attached. Through a history of searches and growth of the command list
// (the lazy index refresh) the twin with the index may only differ by the bounded semantic boost.
func c19Twins(c *lib.Ctx) {
	if !accSetEmbedding(&database.Database{}, nil) {
		return
	}
	extra := []Cmd{{Command: "zzz grow one", Description: "compress files list", Keywords: []string{"git"}}, {Command: "zzz grow two", Description: "tar files", Keywords: []string{"list"}}}
	specs := []dbSpec{{Pool: []int{0, 4, 5}}, {Pool: []int{4, 5, 6, 8, 22}}, {Special: "forty"}}
	qs := []string{"compress files", "git list", "tar files", "list files git"}
	for si, spec := range specs {
		if !c.Mine(int64(si)) {
			continue
		}
		for _, q1 := range qs {
			for _, q2 := range qs {
				for _, firstNLP := range []bool{false, true} {
					mk := func() *database.Database {
						d := &database.Database{Commands: append([]Cmd{}, spec.cmds()...)}
						d.BuildUniversalIndex()
						return d
					}
					a, b := mk(), mk()
					hist := ""
					compare := func(q string, nlp bool) *lib.Violation {
						accSetEmbedding(b, c19Index("full", len(b.Commands)))
						o := Opts{Limit: len(a.Commands) + 3, UseNLP: nlp, AllPlatforms: true}
						var ra, rb []resItem
						var pv any
						func() {
							defer func() { pv = recover() }()
							ra, rb = uItems(a, a.SearchUniversal(q, o)), uItems(b, b.SearchUniversal(q, o))
						}()
						hist += fmt.Sprintf("search(%q,nlp=%v);", q, nlp)
						c.Rep.Evaluations += 2
						c.Count("twin_history_searches", 1)
						cs := c19Search{DB: spec, Query: strconv.Quote(q), NLP: nlp, Index: "twin-history: " + hist}
						if pv != nil {
							return &lib.Violation{Key: "twin-panic", What: fmt.Sprintf("after %s: panic %v", hist, pv), Case: cs}
						}
						if fmt.Sprint(uSortedIdx(ra)) != fmt.Sprint(uSortedIdx(rb)) {
							return &lib.Violation{Key: "twin-candidates", What: "after " + hist + " the database with an embedding index returns a different set of entries than its twin without one", Case: cs, Observed: rb, Expected: ra}
						}
						sa := map[int]float64{}
						for _, it := range ra {
							sa[it.Idx] = it.Score
						}
						for _, it := range rb {
							w := sa[it.Idx]
							if it.Score < w || it.Score > w*(1+constants.SemanticAlpha)*(1+1e-12) {
								return &lib.Violation{Key: "twin-score-bound", What: fmt.Sprintf("after %s entry %d scores %v with the index and %v in the twin without; must lie in [without, (1+%v)*without]", hist, it.Idx, it.Score, w, constants.SemanticAlpha), Case: cs, Observed: rb, Expected: ra}
							}
						}
						return nil
					}
					grow := func(k int) {
						a.Commands = append(a.Commands, extra[k])
						b.Commands = append(b.Commands, extra[k])
						hist += "grow;"
					}
					var v *lib.Violation
					for _, step := range []func() *lib.Violation{
						func() *lib.Violation { return compare(q1, firstNLP) },
						func() *lib.Violation { grow(0); return compare(q2, true) },
						func() *lib.Violation { return compare(q2, false) },
						func() *lib.Violation { grow(1); return compare(q1, true) },
					} {
						if v = step(); v != nil {
							break
						}
					}
					accSetEmbedding(b, nil)
					if v != nil {
						c.Violate(*v)
					}
				}
			}
		}
	}
}

func c19Searches(c *lib.Ctx) {
	if !accSetEmbedding(&database.Database{}, nil) {
		c.Note("embedding-index setter unavailable (" + accMode + "): search part skipped")
		c.Rep.Exhaustive = false
		c.Rep.Cap = "accessor unavailable"
		return
	}
	specs := []dbSpec{{Special: "forty"}}
	for _, s := range uSubsets(8, 3) {
		idx := make([]int, len(s))
		for i, j := range s {
			idx[i] = []int{0, 4, 5, 6, 9, 17, 22, 8}[j]
		}
		specs = append(specs, dbSpec{Pool: idx})
	}
	qs := append(uQueries([]string{"compress", "files", "git", "tar", "list", "qzx", "zzz"}, 2), "", "the",
		// one blank-separated word made of several vocabulary words (hyphen, dot, slash, underscore)
		"compress-files", "git.tar list-files", "tar.gz files", "list/files/git", "compress_files-tar.list")
	for di, spec := range specs {
		if !c.Mine(int64(di)) {
			continue
		}
		db := spec.build(c)
		for _, q := range qs {
			for _, nlp := range []bool{false, true} {
				for _, k := range c19IndexKinds {
					cs := c19Search{DB: spec, Query: strconv.Quote(q), NLP: nlp, Index: k}
					v, obs := c19SearchEval(c, db, cs)
					c.Rep.Evaluations += 2
					c.Count("search_pairs", 1)
					if v != nil {
						c.Violate(*v)
						continue
					}
					parts := strings.SplitN(obs, "|", 2)
					if len(parts) == 2 && parts[0] != parts[1] {
						c.Count("semantic_stage_changed_scores", 1)
						c.Rep.Nontrivial++
					}
				}
			}
		}
		// without files: LoadEmbeddings must leave answers unchanged
		before := uDigest(uItems(db, db.SearchUniversal("compress files", Opts{Limit: 50, UseNLP: true})))
		cwd, _ := os.Getwd()
		os.Chdir(c.Scratch)
		err := db.LoadEmbeddings()
		os.Chdir(cwd)
		after := uDigest(uItems(db, db.SearchUniversal("compress files", Opts{Limit: 50, UseNLP: true})))
		c.Rep.Evaluations++
		c.Count("no_files_cases", 1)
		if err != nil || before != after || db.HasEmbeddings() {
			c.Violate(lib.Violation{Key: "optional", What: fmt.Sprintf("without embedding files LoadEmbeddings must be a no-op: err=%v, has=%v, answers equal=%v", err, db.HasEmbeddings(), before == after), Case: c19Search{DB: spec}})
		}
	}
}

func c19Run(c *lib.Ctx) {
	vhost.Set("linux")
	defer vhost.Set("")
	n := len(c19LoaderCases())
	per := (n + c.NShards - 1) / c.NShards
	from, to := c.Shard*per, (c.Shard+1)*per
	if to > n {
		to = n
	}
	if from < to {
		c19Loaders(c, from, to)
	}
	c19Cosine(c)
	c19Searches(c)
	c19Twins(c)
}

func init() {
	lib.Subs["c19load"] = c19Child
	lib.Register(&lib.Check{
		ID: "C19", Level: "model_checking",
		Rule:      "(loaders) every byte prefix (0..818 / 0..808 bytes) of a valid 2-word vector file and of a valid 2-command embedding file x header count {kept,0,1,2,3,65536,2^31,2^32-1}, + first word-length field {0,1,65535} at every prefix, + dimension {0,1,99,101,2^32-1} x counts at 5 prefixes, + both files gzip-compressed (3 prefixes x every count) with a true, a zero and a 2^32-1 length trailer (a container's own length field is as untrusted as the header): each loaded in a child process under a 1.5 GiB address-space cap; a case that kills the child is attributed exactly and the child restarted after it; oracle: (vectors, nil) or (nil, error), no panic, allocation <= 64 MB + 16 x file size. (cosine) all ordered pairs of the 400 vectors with 0..3 components (thorough: the 2,801 vectors with 0..4 components) over {0,1,-1,0.5,1e-30,3e38,-3e38}: exact symmetry, |cos|<=1, 0 for empty / zero / mismatched. (search) 40-entry + all subsets of <=3 of 8 pool entries x 63 queries (5 of them joining vocabulary words with '-', '.', '/', '_') x NLP on/off x 7 in-memory indexes (full, rotated, one short, wrong length, no command vectors, word vectors whose average overflows float32, command rows holding NaN / Inf as a damaged file can) attached through the overlay setter: same result set, score in [without, (1+alpha) x without], list ordered; LoadEmbeddings without files is a no-op. non-trivial = rejected files + non-zero cosines + searches whose scores the semantic stage changed",
		Assume:    []string{"the embedding index setter is an overlay accessor (" + accMode + ")", "in-memory vectors have Dimension components (the loaders guarantee it for files)", "CosineSimilarity itself is checked on finite vectors only; the search stage is checked with NaN / Inf rows and overflowing sums as well"},
		QuickSecs: 200, ThorSecs: 900,
		Run: c19Run,
		Replay: func(c *lib.Ctx, raw json.RawMessage) []lib.Violation {
			var f c19File
			if json.Unmarshal(raw, &f) == nil && f.Kind != "" {
				// replay in a child so that a fatal allocation is reported, not suffered
				cases := c19LoaderCases()
				for i, cs := range cases {
					if cs == f {
						cc := *c
						cc.Rep = &lib.Report{Counters: map[string]int64{}}
						c19Loaders(&cc, i, i+1)
						return cc.Rep.Violations
					}
				}
				return nil
			}
			var s c19Search
			if json.Unmarshal(raw, &s) == nil && strings.HasPrefix(s.Index, "twin-history: ") {
				vhost.Set("linux")
				defer vhost.Set("")
				cc := *c
				cc.Rep = &lib.Report{Counters: map[string]int64{}}
				cc.NShards, cc.Shard = 1, 0
				c19Twins(&cc)
				var out []lib.Violation
				for _, v := range cc.Rep.Violations {
					if vs, ok := v.Case.(c19Search); ok && vs.Index == s.Index && vs.DB.String() == s.DB.String() {
						out = append(out, v)
					}
				}
				return out
			}
			if json.Unmarshal(raw, &s) == nil && s.Query != "" {
				vhost.Set("linux")
				defer vhost.Set("")
				if v, _ := c19SearchEval(c, s.DB.build(c), s); v != nil {
					return []lib.Violation{*v}
				}
			}
			return nil
		},
		Finish: func(m *lib.Report, tier string) string {
			for _, k := range []string{"loads_ok", "loads_rejected", "cosine_pairs", "search_pairs", "semantic_stage_changed_scores", "no_files_cases"} {
				if m.Counters[k] == 0 && m.Exhaustive {
					return "vacuous: counter " + k + " is zero"
				}
			}
			return ""
		},
	})
}

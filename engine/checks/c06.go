package checks

import (
	"encoding/json"
	"fmt"
	"reflect"
	"strconv"
	"strings"

	"github.com/Vedant9500/WTF/internal/database"
	"github.com/Vedant9500/WTF/internal/nlp"
	"github.com/Vedant9500/WTF/internal/zzvrt/vhost"
	"github.com/Vedant9500/WTF/internal/zzvrt/vmap"
	"github.com/Vedant9500/WTF/zzverif/lib"
)

// C06 — NLP enhancement never drops what the user typed.
// Engine E2: all queries of <=3 (quick) / <=4 (thorough) words over an
// NLP-aware alphabet plus 6..13-word families, on databases in which every
// word and every expansion has a posting.

var c06Words = []string{
	"compress", "find", "files", "folder", "the", "git", "qzx", "install", "ip", "manage",
	"windows", "without", "opening", "show", "LIST", "directory", "tar-x",
}

// extra entries so that expansions (hints, synonyms, actions, targets) have postings
func c06Extra() []Cmd {
	return []Cmd{
		{Command: "ipconfig /all", Description: "Show network interface configuration on windows", Keywords: []string{"ip", "network", "interface", "address"}},
		{Command: "cat file", Description: "View and display file contents without opening an editor", Keywords: []string{"view", "show", "display", "read"}},
		{Command: "locate name", Description: "Search and locate documents", Keywords: []string{"search", "locate", "find"}},
		{Command: "unzip a.zip", Description: "Extract a zip archive", Keywords: []string{"extract", "unzip", "archive"}},
		{Command: "apt install pkg", Description: "Install and setup a package, manage and modify the system", Keywords: []string{"install", "setup", "add", "manage", "configure", "control"}},
		{Command: "mkdir dir", Description: "Create directories make build", Keywords: []string{"create", "make", "build", "directory"}},
		// found through one word only (a word with a letter that has a second capital form, U+212A for k)
		{Command: "sysctl -a", Description: "Kernel parameters", Keywords: []string{"kernel"}},
	}
}

type c06Case struct {
	DB    int    `json:"db"`
	Query string `json:"query_quoted"`
	All   bool   `json:"all_platforms"`
	Kind  string `json:"kind"` // search | analysis
}

func c06DBs() [][]Cmd {
	pool := uPool()
	ex := c06Extra()
	mk := func(idx []int, extra ...int) []Cmd {
		out := uPick(pool, idx)
		for _, e := range extra {
			out = append(out, ex[e])
		}
		return out
	}
	dbs := [][]Cmd{
		mk([]int{0, 4, 5, 6}, 0, 1),
		mk([]int{2, 3, 7, 8, 9}, 2),
		mk([]int{4, 5, 21, 22}, 3, 4),
		mk([]int{17, 18, 19, 20, 24}, 5),
		mk([]int{0, 1, 4, 22, 23, 25}),
		mk([]int{6, 8, 24}, 0, 1, 2, 3, 4, 5),
		mk([]int{9, 10, 11, 13, 14, 15, 16}),
		mk([]int{4}),
		mk([]int{20, 5}, 4),
		mk(nil, 0, 1, 2, 3, 4, 5),
	}
	all := append(append([]Cmd{}, pool...), ex...)
	dbs = append(dbs, all, uForty())
	// 70 entries that all match the alphabet's file words: more matches than any fixed re-rank window
	var seventy []Cmd
	for i := 0; i < 70; i++ {
		seventy = append(seventy, Cmd{Command: fmt.Sprintf("cmd%02d files", i), Description: fmt.Sprintf("find files in a folder or directory, variant %d", i), Keywords: []string{"files", "folder", fmt.Sprintf("v%d", i%5)}})
	}
	dbs = append(dbs, seventy)
	return dbs
}

func c06Long() []string {
	known := []string{"compress", "files", "folder", "git", "install", "directory", "archive", "zip", "search", "list", "status", "commit", "network"}
	var out []string
	for n := 6; n <= 13; n++ {
		for r := 0; r < len(known); r++ {
			var ws []string
			for i := 0; i < n; i++ {
				ws = append(ws, known[(r+i)%len(known)])
			}
			out = append(out, strings.Join(ws, " "))
		}
		// repeats
		var ws []string
		for i := 0; i < n; i++ {
			ws = append(ws, []string{"git", "files", "compress"}[i%3])
		}
		out = append(out, strings.Join(ws, " "))
		// unknown words with one known word at position k
		for k := 0; k < n; k++ {
			var us []string
			for i := 0; i < n; i++ {
				if i == k {
					us = append(us, "files")
				} else {
					us = append(us, fmt.Sprintf("zq%c%c", 'a'+i, 'a'+i))
				}
			}
			out = append(out, strings.Join(us, " "))
		}
	}
	return out
}

func c06Search(db *database.Database, cmds []Cmd, cs c06Case) (*lib.Violation, string) {
	q, _ := strconv.Unquote(cs.Query)
	base := Opts{Limit: len(cmds) + 5, AllPlatforms: cs.All}
	on := base
	on.UseNLP = true
	var offI, onI []resItem
	var pv any
	func() {
		defer func() { pv = recover() }()
		offI = uItems(db, db.SearchUniversal(q, base))
		onI = uItems(db, db.SearchUniversal(q, on))
	}()
	if pv != nil {
		return &lib.Violation{Key: "panic", What: fmt.Sprintf("search panicked: %v", pv), Case: cs}, "panic"
	}
	obs := uDigest(offI) + "|" + uDigest(onI)
	toks := refTokens(q)
	onSet := uSetOf(onI)
	if len(toks) <= 10 {
		for _, it := range offI {
			if !onSet[it.Idx] {
				return &lib.Violation{Key: "lost-lexical-match", What: fmt.Sprintf("query %s (%d content words): entry %d (%q) is returned with NLP off but is missing with NLP on", cs.Query, len(toks), it.Idx, cmds[it.Idx].Command),
					Case: cs, Observed: onI, Expected: offI}, obs
			}
		}
	} else {
		first4 := toks[:4]
		for i := range cmds {
			if !refEligible(&cmds[i], base, "linux") {
				continue
			}
			for _, t := range first4 {
				if refContains(&cmds[i], t) && !onSet[i] {
					return &lib.Violation{Key: "lost-first-four", What: fmt.Sprintf("long query %s: entry %d (%q) contains %q, one of the first four content words, but is missing with NLP on", cs.Query, i, cmds[i].Command, t),
						Case: cs, Observed: onI}, obs
				}
			}
		}
	}
	return nil, obs
}

// c06MapPoints: map-range points met by the analyses of this worker (reported as a counter)
var c06MapPoints int64

func c06Analysis(cs c06Case) (*lib.Violation, string) {
	q, _ := strconv.Unquote(cs.Query)
	var pq, pq2 *nlp.ProcessedQuery
	var enh []string
	var pv any
	func() {
		defer func() { pv = recover() }()
		pq = nlp.NewQueryProcessor().ProcessQuery(q)
		pq2 = nlp.NewQueryProcessor().ProcessQuery(q)
		enh = pq.GetEnhancedKeywords()
	}()
	if pv != nil {
		return &lib.Violation{Key: "panic-analysis", What: fmt.Sprintf("ProcessQuery panicked: %v", pv), Case: cs}, "panic"
	}
	obs := fmt.Sprintf("%q|%q|%q|%q|%s", pq.Keywords, pq.Actions, pq.Targets, enh, pq.Intent)
	if !reflect.DeepEqual(pq, pq2) {
		return &lib.Violation{Key: "analysis-unstable", What: "analysing the same text twice gives different analyses", Case: cs, Observed: pq, Expected: pq2}, obs
	}
	// map-order exploration (E4): the analysis under every forced order (reversed / rotated, one deviating
	// range point at a time) of each map it ranges over must be the same analysis
	nPoints := 0
	vmap.Choose = func(site string, n int) []int {
		if n > 1 {
			nPoints++
		}
		return nil
	}
	func() {
		defer func() { recover() }()
		nlp.NewQueryProcessor().ProcessQuery(q).GetEnhancedKeywords()
	}()
	vmap.Choose = nil
	for dev := 0; dev < nPoints && dev < 24; dev++ {
		for _, mode := range []string{"reverse", "rotate"} {
			k := 0
			site := ""
			vmap.Choose = func(st string, n int) []int {
				if n <= 1 {
					return nil
				}
				defer func() { k++ }()
				if k != dev {
					return nil
				}
				site = st
				p := make([]int, n)
				for i := range p {
					if mode == "reverse" {
						p[i] = n - 1 - i
					} else {
						p[i] = (i + 1) % n
					}
				}
				return p
			}
			var pq3 *nlp.ProcessedQuery
			var enh3 []string
			func() {
				defer func() { recover() }()
				pq3 = nlp.NewQueryProcessor().ProcessQuery(q)
				enh3 = pq3.GetEnhancedKeywords()
			}()
			vmap.Choose = nil
			if pq3 == nil || !reflect.DeepEqual(pq, pq3) || !reflect.DeepEqual(enh, enh3) {
				return &lib.Violation{Key: "analysis-order-dependent:" + site, What: fmt.Sprintf("the analysis of the text depends on the iteration order of the map ranged at %s (%s order)", site, mode), Case: cs, Observed: pq3, Expected: pq}, obs
			}
		}
	}
	c06MapPoints += int64(nPoints)
	if len(enh) < len(pq.Keywords) {
		return &lib.Violation{Key: "keywords-not-first", What: "the expanded term list is shorter than the keyword list", Case: cs, Observed: enh, Expected: pq.Keywords}, obs
	}
	for i, k := range pq.Keywords {
		if enh[i] != k {
			return &lib.Violation{Key: "keywords-not-first", What: fmt.Sprintf("the expanded term list does not begin with the user's keywords: position %d is %q, keyword is %q", i, enh[i], k), Case: cs, Observed: enh, Expected: pq.Keywords}, obs
		}
	}
	seen := map[string]bool{}
	for _, e := range enh {
		if seen[e] {
			return &lib.Violation{Key: "duplicate-term", What: fmt.Sprintf("the expanded term list contains %q twice", e), Case: cs, Observed: enh}, obs
		}
		seen[e] = true
	}
	// the user's own words keep the user's order
	user := strings.Fields(strings.ToLower(nlp.NormalizeText(q)))
	firstPos := map[string]int{}
	for i, w := range user {
		if _, ok := firstPos[w]; !ok {
			firstPos[w] = i
		}
	}
	last := -1
	for _, k := range pq.Keywords {
		if p, ok := firstPos[k]; ok {
			if p < last {
				return &lib.Violation{Key: "user-order", What: fmt.Sprintf("keyword %q appears out of the user's order", k), Case: cs, Observed: pq.Keywords, Expected: user}, obs
			}
			if p > last {
				last = p
			}
		}
	}
	// every user word that is neither a stop word nor consumed as a pure action is a keyword
	return nil, obs
}

func c06Run(c *lib.Ctx) {
	vhost.Set("linux")
	defer vhost.Set("")
	c06MapPoints = 0
	defer func() { c.Count("analysis_map_range_points", c06MapPoints) }()
	depth := 4
	if c.Thorough() {
		depth = 5
	}
	qs := uQueries(c06Words, depth)
	qs = append(qs, c06Long()...)
	qs = append(qs, uSpecialQueries...)
	// words the index knows, spelt with the second capital form of a letter (U+212A KELVIN SIGN lower-cases
	// to k) and glued to a neighbour by '.', '-' or '/', alone and in queries long enough to use up the
	// enhancement budget: whatever the analysis does to such a word, the user's own term must survive
	qs = append(qs, "\u212aernel", "\u212aernel.log", "\u212aernel-x", "pac\u212aage.interface", "networ\u212a.setup", "\u212aernel.log find files folder git install manage show", "find files folder git install manage show directory \u212aernel.log",
		"networ\u212a.interface", "ma\u212ae-build", "pac\u212aage/setup", "\u212aeep.files", "loo\u212a networ\u212a",
		"networ\u212a find files folder git install manage show directory", "find files folder git install manage show directory ma\u212ae", "ma\u212ae.build compress files folder git install manage show")
	dbsC := c06DBs()
	dbs := make([]*database.Database, len(dbsC))
	var idx int64
	selfCheck := 0
	for qi, q := range qs {
		if !c.Mine(int64(qi)) {
			continue
		}
		if qi%256 == c.Shard && c.Expired() {
			return
		}
		qq := strconv.Quote(q)
		v, obs := c06Analysis(c06Case{Query: qq, Kind: "analysis"})
		c.Rep.Evaluations++
		c.Count("analysis_cases", 1)
		if v != nil {
			c.Violate(*v)
		}
		if strings.Contains(obs, "|") {
			pq := nlp.NewQueryProcessor().ProcessQuery(q)
			if len(pq.GetEnhancedKeywords()) > len(pq.Keywords) {
				c.Count("analysis_appended_terms", 1)
			}
		}
		nt := len(refTokens(q))
		if nt >= 7 && nt <= 11 {
			c.Count(fmt.Sprintf("queries_with_%d_terms", nt), 1)
		}
		for di := range dbsC {
			if dbs[di] == nil {
				dbs[di] = uMustDB(c, dbsC[di])
			}
			for _, all := range []bool{false, true} {
				cs := c06Case{DB: di, Query: qq, All: all, Kind: "search"}
				v, obs := c06Search(dbs[di], dbsC[di], cs)
				c.Rep.Evaluations += 2
				idx++
				if selfCheck < 64 {
					selfCheck++
					if _, o2 := c06Search(dbs[di], dbsC[di], cs); o2 != obs {
						c.Fail("harness nondeterminism on %+v", cs)
					}
				}
				if v != nil {
					c.Violate(*v)
				}
				parts := strings.SplitN(obs, "|", 2)
				if len(parts) == 2 && parts[0] != "" {
					c.Rep.Nontrivial++
					if strings.Count(parts[1], ";") > strings.Count(parts[0], ";") {
						c.Count("nlp_added_candidates", 1)
					}
				}
				if idx%30000 == 9 {
					c.Sample(map[string]any{"case": cs, "observed": obs})
				}
			}
		}
	}
}

func c06Replay(c *lib.Ctx, raw json.RawMessage) []lib.Violation {
	vhost.Set("linux")
	defer vhost.Set("")
	var cs c06Case
	if json.Unmarshal(raw, &cs) != nil {
		return nil
	}
	var v *lib.Violation
	if cs.Kind == "analysis" {
		v, _ = c06Analysis(cs)
	} else {
		dbs := c06DBs()
		if cs.DB < 0 || cs.DB >= len(dbs) {
			return nil
		}
		v, _ = c06Search(uMustDB(c, dbs[cs.DB]), dbs[cs.DB], cs)
	}
	if v != nil {
		return []lib.Violation{*v}
	}
	return nil
}

func init() {
	lib.Register(&lib.Check{
		ID: "C06", Level: "model_checking",
		Rule:      "every query of <=4 (quick) / <=5 (thorough) words over a 17-word NLP-aware alphabet (actions, targets, synonym carriers, stop word, context words ip/manage/windows, the 'without opening' phrase, upper case, punctuation) + 6..13-word families (13 rotations of distinct known words, a 3-word cycle, unknown words with one known word at every position) + 15 specials; each analysed twice and again under reversed / rotated iteration order of every map the analysis ranges over, one deviating point at a time (ProcessQuery / GetEnhancedKeywords structure) and searched on 13 databases (the last: 70 entries that all match) x all-platforms on/off with NLP off and on at Limit>=N: NLP-off result set must be a subset of NLP-on (<=10 content words), entries matching one of the first four content words must be present (longer). evaluations = searches + analyses; non-trivial = search pairs with a non-empty NLP-off answer",
		Assume:    []string{"host pinned to linux, map order pinned", "first four content words = the first four tokens of the query after stop-word removal"},
		QuickSecs: 150, ThorSecs: 1200,
		Run: c06Run, Replay: c06Replay,
		Finish: func(m *lib.Report, tier string) string {
			if !m.Exhaustive {
				return ""
			}
			for _, k := range []string{"analysis_appended_terms", "nlp_added_candidates", "queries_with_7_terms", "queries_with_8_terms", "queries_with_10_terms", "queries_with_11_terms"} {
				if m.Counters[k] == 0 {
					return "vacuous: counter " + k + " is zero"
				}
			}
			return ""
		},
	})
}

package checks

import (
	"fmt"

	"github.com/Vedant9500/WTF/internal/zzvrt/vchan"
	"github.com/Vedant9500/WTF/internal/zzvrt/vsched"
	"github.com/Vedant9500/WTF/zzverif/lib"
)

// Self-test of the channel shim under the schedule explorer (run as part of C11): six small
// programs written against the shim's API - the form vinstr rewrites channel operations of the
// code under test into - explored under every interleaving with <= 2 preemptions. A wrong
// outcome is a harness error (exit 2), never a verdict about the repository.
func c11ChanSelfTest(c *lib.Ctx) {
	type prog struct {
		name string
		body func() ([]func(), func(x *schedExec) string)
	}
	progs := []prog{
		{"unbuffered-rendezvous", func() ([]func(), func(*schedExec) string) {
			ch := make(chan int)
			sum, order := 0, ""
			return []func(){
					func() { vchan.SendTo(ch).Do(1); order += "s"; vchan.SendTo(ch).Do(2) },
					func() { sum += vchan.Recv(ch); order += "r"; sum += vchan.Recv(ch) },
					func() { order += "x" },
				}, func(x *schedExec) string {
					if x.Sched.Deadlock || sum != 3 {
						return fmt.Sprintf("deadlock=%v sum=%d", x.Sched.Deadlock, sum)
					}
					return ""
				}
		}},
		{"buffered-close-range", func() ([]func(), func(*schedExec) string) {
			ch := make(chan int, 1)
			sum := 0
			return []func(){
					func() {
						for i := 1; i <= 3; i++ {
							vchan.SendTo(ch).Do(i)
						}
						vchan.Close(ch)
					},
					func() {
						for {
							v, ok := vchan.Recv2(ch)
							if !ok {
								break
							}
							sum += v
						}
					},
				}, func(x *schedExec) string {
					if x.Sched.Deadlock || sum != 6 {
						return fmt.Sprintf("deadlock=%v sum=%d", x.Sched.Deadlock, sum)
					}
					return ""
				}
		}},
		{"select-both-directions", func() ([]func(), func(*schedExec) string) {
			a, b, done := make(chan int), make(chan int), make(chan struct{})
			got, sent, aSent, bRecv := 0, false, false, 0
			return []func(){
					func() {
						s := vchan.NewSelect(false)
						ra := vchan.AddRecv(s, a)
						vchan.AddSend(s, b).Val(5)
						switch s.Wait() {
						case 0:
							got = ra.V
						default:
							sent = true
						}
						vchan.Close(done)
					},
					func() {
						s := vchan.NewSelect(false)
						vchan.AddSend(s, a).Val(7)
						vchan.AddRecv(s, done)
						if s.Wait() == 0 {
							aSent = true
						}
					},
					func() {
						s := vchan.NewSelect(false)
						rb := vchan.AddRecv(s, b)
						vchan.AddRecv(s, done)
						if s.Wait() == 0 {
							bRecv = rb.V
						}
					},
				}, func(x *schedExec) string {
					ok := !x.Sched.Deadlock && ((got == 7 && aSent && !sent && bRecv == 0) || (sent && bRecv == 5 && got == 0 && !aSent))
					if !ok {
						return fmt.Sprintf("deadlock=%v got=%d aSent=%v sent=%v bRecv=%d", x.Sched.Deadlock, got, aSent, sent, bRecv)
					}
					return ""
				}
		}},
		{"receive-nobody-sends-is-a-deadlock", func() ([]func(), func(*schedExec) string) {
			ch := make(chan int)
			return []func(){func() { vchan.Recv(ch) }, func() {}}, func(x *schedExec) string {
				if !x.Sched.Deadlock {
					return "a body blocked for ever in a receive was not reported as a deadlock"
				}
				return ""
			}
		}},
		{"parked-worker-is-a-leak-not-a-deadlock", func() ([]func(), func(*schedExec) string) {
			jobs := make(chan int)
			n := 0
			return []func(){func() {
					vsched.Go(func() {
						for {
							v, ok := vchan.Recv2(jobs)
							if !ok {
								return
							}
							n += v
						}
					})
					vchan.SendTo(jobs).Do(4)
				}, func() {}}, func(x *schedExec) string {
					if x.Sched.Deadlock || x.Sched.Leaked != 1 || n != 4 {
						return fmt.Sprintf("deadlock=%v leaked=%d n=%d", x.Sched.Deadlock, x.Sched.Leaked, n)
					}
					return ""
				}
		}},
		{"close-wakes-every-receiver", func() ([]func(), func(*schedExec) string) {
			ch := make(chan int)
			oks := 0
			recv := func() {
				if _, ok := vchan.Recv2(ch); ok {
					oks++
				}
			}
			return []func(){recv, recv, func() { vchan.Close(ch) }}, func(x *schedExec) string {
				if x.Sched.Deadlock || oks != 0 {
					return fmt.Sprintf("deadlock=%v receives-that-reported-a-value=%d", x.Sched.Deadlock, oks)
				}
				return ""
			}
		}},
	}
	for _, p := range progs {
		bad := ""
		e := &schedExplorer{Bound: 2, MaxExecs: 200000}
		e.Body = func() ([]func(), func(x *schedExec)) {
			ts, chk := p.body()
			return ts, func(x *schedExec) {
				if x.Sched == nil {
					return
				}
				if r := chk(x); r != "" && bad == "" {
					bad = r + " [schedule: " + schedDescribe(x) + "]"
				}
			}
		}
		e.Explore()
		c.Count("channel_shim_selftest_schedules", e.Execs)
		switch {
		case e.Stuck:
			c.Fail("channel shim self-test %s: an execution did not finish (a thread blocked outside the scheduler)", p.name)
		case e.Diverged != "":
			c.Fail("channel shim self-test %s: %s", p.name, e.Diverged)
		case bad != "":
			c.Fail("channel shim self-test %s: %s", p.name, bad)
		case e.Execs < 2:
			c.Fail("channel shim self-test %s: only %d schedule explored", p.name, e.Execs)
		}
	}
}

package checks

import (
	"encoding/json"
	"fmt"
	"math"
	"strings"
	"unicode"
	"unicode/utf8"

	"github.com/Vedant9500/WTF/internal/constants"
	"github.com/Vedant9500/WTF/internal/validation"
	"github.com/Vedant9500/WTF/zzverif/lib"
)

// C14 — accepted queries are clean; validation is stable and decisive.
// Engine E2: all strings of <=3 (quick) / <=5 (thorough) atoms over a 46-atom
// alphabet, run-length families around the byte-length boundaries, all limits
// in [-300,300] plus corners.

var c14Atoms = []string{
	"a", "Z", "\u00e9", " ", "\t", "\n", "\r", "\x00", "\x1f", "\x7f",
	"\u0085", "\u00a0", "\u1680", "\u2003", "\u2028", "\u2029", "\u202f", "\u3000", "\u200b", "\ufeff",
	"<", ">", "|", "&", ";", "$", "\xff", "\xc3", "\xed\xa0\x80", "-",
	".", "\"", "'", "\\", "0", "ab", "  ", "\ufffd", "\v", "\f",
	// fullwidth twins of three metacharacters and of a letter (compatibility forms that a normalisation could fold)
	"\uff04", "\uff5c", "\uff1b", "\uff41",
	// a letter glued to a Unicode blank: with these, three atoms can put a mixed ASCII / Unicode run of blanks between letters
	"a\u00a0", "\u3000b",
}

const c14Meta = "<>|&;$"

type c14Case struct {
	Query string `json:"query_quoted"` // strconv-quoted
	Limit *int   `json:"limit,omitempty"`
	Then  string `json:"then_query_quoted,omitempty"` // a second query validated afterwards (accepted answers are values)
}

// c14Eval checks one query; returns violations and an observation.
// the accepted answer of the previous evaluation, as handed out (c14Held) and a private copy of its
// bytes taken at that moment (c14HeldCopy), with the query it belonged to: an accepted query is a
// value - validating something else afterwards must not change it.
var c14Held, c14HeldCopy, c14HeldQuery string

func c14Eval(q string) (vs []lib.Violation, obs string, accepted bool, out string) {
	out, err := validation.ValidateQuery(q)
	obs = fmt.Sprintf("%q,%v", out, err != nil)
	mk := func(key, what string, observed any) {
		vs = append(vs, lib.Violation{Key: key, What: what, Case: c14Case{Query: fmt.Sprintf("%q", q)}, Observed: observed,
			GoTest: fmt.Sprintf("out, err := validation.ValidateQuery(%q) // then re-validate out", q)})
	}
	if c14Held != c14HeldCopy {
		vs = append(vs, lib.Violation{Key: "accepted-output-changed-later", What: fmt.Sprintf("the accepted answer %q for query %q reads %q after a later ValidateQuery(%q)", truncStr(c14HeldCopy, 60), truncStr(c14HeldQuery, 60), truncStr(c14Held, 60), truncStr(q, 60)),
			Case: c14Case{Query: fmt.Sprintf("%q", c14HeldQuery), Then: fmt.Sprintf("%q", q)}, Observed: truncStr(c14Held, 80), Expected: truncStr(c14HeldCopy, 80)})
	}
	c14Held, c14HeldCopy, c14HeldQuery = "", "", ""
	if err == nil {
		c14Held, c14HeldCopy, c14HeldQuery = out, strings.Clone(out), q
	}
	// reference acceptance predicate
	tooLong := len(q) > constants.MaxQueryLength
	hasMeta := strings.ContainsAny(q, c14Meta)
	blank, onlyInvalid := true, true
	for i := 0; i < len(q); {
		r, sz := utf8.DecodeRuneInString(q[i:])
		invalid := r == utf8.RuneError && sz == 1
		if !invalid && !unicode.IsControl(r) && !unicode.IsSpace(r) {
			blank = false
			onlyInvalid = false
		}
		if invalid {
			blank = false // an invalid byte is not white space ...
		}
		i += sz
	}
	// ... but whether a string whose only content is invalid bytes is "blank"
	// is not decided by the statement: both answers are accepted there.
	undecided := !blank && onlyInvalid
	wantAccept := !tooLong && !hasMeta && !blank
	accepted = err == nil
	if !undecided && accepted != wantAccept {
		mk("accept-boundary", fmt.Sprintf("query of %d bytes: accepted=%v, statement says %v (tooLong=%v meta=%v blank=%v)", len(q), accepted, wantAccept, tooLong, hasMeta, blank), obs)
	}
	if undecided && accepted && (tooLong || hasMeta) {
		mk("accept-boundary", "query accepted although too long or containing a metacharacter", obs)
	}
	if !accepted {
		if out != "" {
			mk("reject-output", "rejected query returned a non-empty string", obs)
		}
		return
	}
	// cleanliness of the accepted output
	prevSpace := false
	first := true
	var last rune
	for _, r := range out {
		if unicode.IsControl(r) {
			mk("output-control", fmt.Sprintf("accepted output contains control character %U", r), out)
			break
		}
		sp := unicode.IsSpace(r)
		if sp && first {
			mk("output-space", "accepted output has leading white space", out)
			break
		}
		if sp && prevSpace {
			mk("output-space", "accepted output has repeated white space", out)
			break
		}
		prevSpace = sp
		first = false
		last = r
	}
	if out != "" && unicode.IsSpace(last) {
		mk("output-space", "accepted output has trailing white space", out)
	}
	if strings.ContainsAny(out, c14Meta) {
		mk("output-meta", "accepted output contains a shell metacharacter", out)
	}
	if utf8.RuneCountInString(out) > utf8.RuneCountInString(q) {
		mk("output-longer", fmt.Sprintf("accepted output has %d characters, input had %d", utf8.RuneCountInString(out), utf8.RuneCountInString(q)), out)
	}
	out2, err2 := validation.ValidateQuery(out)
	if err2 != nil || out2 != out {
		mk("idempotence", fmt.Sprintf("re-validating the accepted output (%d bytes) gives (%q, err=%v)", len(out), truncStr(out2, 40), err2), truncStr(out, 80))
	}
	return
}

func truncStr(s string, n int) string {
	if len(s) > n {
		return s[:n] + "…"
	}
	return s
}

func c14Limit(limit int) (vs []lib.Violation) {
	res, err := validation.ValidateLimit(limit)
	mk := func(what string) {
		l := limit
		vs = append(vs, lib.Violation{Key: "limit", What: what, Case: c14Case{Limit: &l}, Observed: fmt.Sprintf("(%d, err=%v)", res, err)})
	}
	if err == nil && (res < 1 || res > 100) {
		mk(fmt.Sprintf("limit %d accepted as %d, outside [1,100]", limit, res))
	}
	if limit == 0 && (err != nil || res != constants.DefaultSearchLimit) {
		mk("limit 0 must mean the default")
	}
	if limit >= 1 && limit <= 100 && (err != nil || res != limit) {
		mk(fmt.Sprintf("limit %d in [1,100] must be accepted unchanged", limit))
	}
	if (limit < 0 || limit > 100) && err == nil {
		mk(fmt.Sprintf("limit %d outside [0,100] accepted", limit))
	}
	return
}

func c14Families() []string {
	var out []string
	atoms := []string{"a", " ", "\xff", "\u00e9", "\x00", "\ufffd", "\xc3", "a\xff", "\t", "\u3000", "a ", "\x7f"}
	ns := []int{249, 250, 251, 332, 333, 334, 335, 498, 499, 500, 501, 998, 999, 1000, 1001}
	tails := []string{"", "a", ";", " ", "\xff", "\n"}
	for _, a := range atoms {
		for _, n := range ns {
			body := strings.Repeat(a, n)
			for _, t := range tails {
				out = append(out, body+t)
				if t != "" {
					out = append(out, t+body)
					out = append(out, "x"+t+body)
				}
			}
		}
	}
	return out
}

func c14Run(c *lib.Ctx) {
	depth := 3
	if c.Thorough() {
		depth = 5
	}
	n := int64(len(c14Atoms))
	idx := int64(0)
	var accepted, rejected, cleaned int64
	selfCheck := 0
	eval := func(q string) {
		vs, obs, acc, out := c14Eval(q)
		c.Rep.Evaluations++
		if selfCheck < 64 {
			selfCheck++
			_, obs2, _, _ := c14Eval(q)
			if obs2 != obs {
				c.Fail("harness nondeterminism on %q", q)
			}
		}
		if acc {
			accepted++
		} else {
			rejected++
		}
		if acc && out != q {
			cleaned++
		}
		for _, v := range vs {
			c.Violate(v)
		}
		if c.Rep.Evaluations%20000 == 7 {
			c.Sample(map[string]any{"query": fmt.Sprintf("%q", q), "observed": obs})
		}
	}
	for d := 1; d <= depth; d++ {
		total := int64(1)
		for i := 0; i < d; i++ {
			total *= n
		}
		for k := int64(0); k < total; k++ {
			idx++
			if !c.Mine(idx) {
				continue
			}
			if idx%8192 == int64(c.Shard) && c.Expired() {
				return
			}
			var sb strings.Builder
			x := k
			for i := 0; i < d; i++ {
				sb.WriteString(c14Atoms[x%n])
				x /= n
			}
			eval(sb.String())
		}
	}
	for _, q := range c14Families() {
		idx++
		if c.Mine(idx) {
			eval(q)
			c.Count("family_cases", 1)
		}
	}
	if c.Shard == 0 {
		eval("")
		limits := []int{math.MinInt64, math.MinInt32, -1 << 31, 1<<31 - 1, 1 << 31, math.MaxInt64, math.MaxInt64 - 1}
		// where 64-bit arithmetic on the limit would wrap: MaxInt/k and MinInt/k (k = 2..16) and every power of two, each +-2
		for k := 2; k <= 16; k++ {
			for d := -2; d <= 2; d++ {
				limits = append(limits, math.MaxInt64/k+d, math.MinInt64/k+d)
			}
		}
		for b := 8; b <= 62; b++ {
			for d := -2; d <= 2; d++ {
				limits = append(limits, 1<<b+d, -(1<<b)+d)
			}
		}
		for l := -300; l <= 300; l++ {
			limits = append(limits, l)
		}
		for _, l := range limits {
			c.Rep.Evaluations++
			c.Count("limit_cases", 1)
			for _, v := range c14Limit(l) {
				c.Violate(v)
			}
		}
	}
	c14Processes(c)
	c.Count("accepted", accepted)
	c.Count("rejected", rejected)
	c.Count("accepted_and_changed", cleaned)
	c.Rep.Nontrivial = cleaned + rejected
}

func init() {
	lib.Register(&lib.Check{
		ID: "C14", Level: "model_checking",
		Rule:      "every string of <=3 (quick) / <=5 (thorough) atoms over a 46-atom alphabet (ASCII, all Unicode spaces, controls, metacharacters and fullwidth twins of them, invalid UTF-8) plus run-length families atom^n·tail around 250/333/500/1000 bytes, each through ValidateQuery and re-validation, the accepted answer of each evaluation held across the next one (an accepted query must not change when something else is validated afterwards); every limit in [-300,300] plus int corners (MaxInt/k, MinInt/k for k<=16 and all powers of two, each +-2) through ValidateLimit; non-trivial = rejected, or accepted with an output different from the input",
		Assume:    []string{"Unicode classes per Go's unicode tables", "acceptance of strings whose only content is invalid UTF-8 bytes is left undecided (either answer accepted)"},
		QuickSecs: 60, ThorSecs: 600,
		Run: c14Run,
		Replay: func(c *lib.Ctx, raw json.RawMessage) []lib.Violation {
			var cs c14Case
			if json.Unmarshal(raw, &cs) != nil {
				return nil
			}
			if cs.Limit != nil {
				return c14Limit(*cs.Limit)
			}
			var q string
			fmt.Sscanf(cs.Query, "%q", &q)
			if cs.Then != "" {
				var q2 string
				fmt.Sscanf(cs.Then, "%q", &q2)
				c14Eval(q)
				vs, _, _, _ := c14Eval(q2)
				var out []lib.Violation
				for _, v := range vs {
					if v.Key == "accepted-output-changed-later" {
						out = append(out, v)
					}
				}
				return out
			}
			vs, _, _, _ := c14Eval(q)
			return vs
		},
		Finish: func(m *lib.Report, tier string) string {
			if m.Counters["accepted"] < 100 || m.Counters["rejected"] < 100 || m.Counters["accepted_and_changed"] < 100 {
				return "vacuous: accepted/rejected/cleaned classes not all populated"
			}
			return ""
		},
	})
}

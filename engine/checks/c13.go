package checks

import (
	"encoding/json"
	"fmt"
	"math"
	"os"
	"path/filepath"
	"reflect"
	"sort"
	"strconv"
	"strings"

	wctx "github.com/Vedant9500/WTF/internal/context"
	"github.com/Vedant9500/WTF/internal/database"
	"github.com/Vedant9500/WTF/internal/zzvrt/vhost"
	"github.com/Vedant9500/WTF/internal/zzvrt/vmap"
	"github.com/Vedant9500/WTF/zzverif/lib"
)

// C13 — project context only re-ranks, in favour of commands that mention it.
// (search) databases x queries x boost maps (every single-word map x factors,
// every two-word map) x NLP on/off: candidate-set equality and per-entry
// monotonicity.  (analyzer) every directory listing of <=2 (quick) names from
// the marker alphabet (all subsets of one marker per project type, thorough)
// x package.json / Makefile texts.

type c13Case struct {
	Kind   string             `json:"kind"` // search | dir
	DB     dbSpec             `json:"db,omitempty"`
	Query  string             `json:"query_quoted,omitempty"`
	NLP    bool               `json:"nlp,omitempty"`
	Boosts map[string]float64 `json:"boosts,omitempty"`
	Cap    int                `json:"top_terms_cap,omitempty"`
	Files  []string           `json:"files,omitempty"`
	Pkg    int                `json:"package_json,omitempty"`
	Mk     int                `json:"makefile,omitempty"`
	Order  []int              `json:"map_order,omitempty"`
}

var c13BoostWords = []string{"compress", "files", "git", "tar", "qzx", "list", "folder", "install", "find", "commit", "caf", "zzz", "dir", "ls", "grep"}

func c13Search(db *database.Database, cs c13Case) (*lib.Violation, string) {
	q, _ := strconv.Unquote(cs.Query)
	base := Opts{Limit: len(db.Commands) + 5, UseNLP: cs.NLP, AllPlatforms: true, TopTermsCap: cs.Cap}
	with := base
	with.ContextBoosts = cs.Boosts
	var a, b []resItem
	var pv any
	func() {
		defer func() { pv = recover() }()
		a = uItems(db, db.SearchUniversal(q, base))
		b = uItems(db, db.SearchUniversal(q, with))
	}()
	if pv != nil {
		return &lib.Violation{Key: "panic", What: fmt.Sprintf("search panicked: %v", pv), Case: cs}, "panic"
	}
	obs := uDigest(a) + "|" + uDigest(b)
	sa, sb := map[int]float64{}, map[int]float64{}
	for _, it := range a {
		sa[it.Idx] = it.Score
	}
	for _, it := range b {
		sb[it.Idx] = it.Score
	}
	if !reflect.DeepEqual(uSortedIdx(a), uSortedIdx(b)) {
		return &lib.Violation{Key: "candidate-set", What: fmt.Sprintf("context boosts %v changed the set of matching commands for %s: %v without, %v with", cs.Boosts, cs.Query, uSortedIdx(a), uSortedIdx(b)), Case: cs, Observed: b, Expected: a}, obs
	}
	for i, without := range sa {
		w := sb[i]
		has := false
		for word, f := range cs.Boosts {
			if f > 0 && refContains(&db.Commands[i], word) {
				has = true
			}
		}
		if has {
			if w < without {
				return &lib.Violation{Key: "boost-lowered-score", What: fmt.Sprintf("boosting %v lowered the score of %q, which contains a boosted word, from %v to %v", cs.Boosts, db.Commands[i].Command, without, w), Case: cs, Observed: b, Expected: a}, obs
			}
		} else if math.Float64bits(w) != math.Float64bits(without) {
			return &lib.Violation{Key: "boost-changed-unrelated", What: fmt.Sprintf("boosting %v changed the score of %q, which contains no boosted word, from %v to %v", cs.Boosts, db.Commands[i].Command, without, w), Case: cs, Observed: b, Expected: a}, obs
		}
	}
	changed := ""
	if uDigest(a) != uDigest(b) {
		changed = "changed"
	}
	return nil, changed + "|" + obs
}

// ---------------------------------------------------------------- analyzer

// c13Markers: file name -> project type it indicates ("" = none).
var c13Markers = map[string]string{
	".git": "git", "Dockerfile": "docker", "docker-compose.yml": "docker", "docker-compose.yaml": "docker",
	"package.json": "node", "node_modules": "node", "yarn.lock": "node", "pnpm-lock.yaml": "node",
	"webpack.config.js": "webpack", "webpack.config.ts": "webpack", "vite.config.js": "vite", "vite.config.ts": "vite",
	"requirements.txt": "python", "setup.py": "python", "pyproject.toml": "python", "Pipfile": "python",
	"go.mod": "go", "go.sum": "go", "Cargo.toml": "rust", "Cargo.lock": "rust",
	"pom.xml": "java", "build.gradle": "java", "build.gradle.kts": "java",
	"app.csproj": "dotnet", "app.vbproj": "dotnet", "app.fsproj": "dotnet", "global.json": "dotnet", "nuget.config": "dotnet",
	"Gemfile": "ruby", "Rakefile": "ruby", "composer.json": "php", "composer.lock": "php",
	"CMakeLists.txt": "c", "Makefile": "make", "makefile": "make",
	"k8s-deploy.yaml": "kubernetes", "kubernetes.yml": "kubernetes", "kustomization.yaml": "kubernetes", "kustomization.yml": "kubernetes",
	"main.tf": "terraform", "prod.tfvars": "terraform",
	"ansible.cfg": "ansible", "hosts": "ansible", "inventory": "ansible", "site-playbook.yml": "ansible",
	// non-markers
	"README.md": "", "main.c": "", "k8s.txt": "", "playbook.txt": "", "package.json.bak": "", "notes": "",
}

func c13MarkerNames() []string {
	var out []string
	for k := range c13Markers {
		out = append(out, k)
	}
	sort.Strings(out)
	return out
}

var c13PkgTexts = []string{
	`{"scripts":{"build":"tsc","test":"jest"}}`,
	`{"scripts":null}`,
	`not json`,
	``,
	`{"scripts":{"my script":"x","lint:fix":"y","ünï":"z"}}`,
	`{"name":"x"}`,
	`{"scripts":{"git":"echo"}}`,
	`{"scripts":[]}`,
	// more scripts than any small cut-off: which ones get a boost must not depend on map order
	`{"scripts":{"s01":"a","s02":"a","s03":"a","s04":"a","s05":"a","s06":"a","s07":"a","s08":"a","s09":"a","s10":"a","s11":"a","s12":"a","s13":"a"}}`,
}

var c13MkTexts = []string{
	"build:\n\tgo build\ntest: build\n\tgo test\n",
	"CC=gcc\nCFLAGS := -O2\nall: main\n",
	".PHONY: all clean\nall:\nclean:\n",
	"",
	"# comment: not a target\n\techo a: b\n",
	"a: b: c\n",
	"build:\r\n\tgo build\r\ntest:\r\n",
	"git: files\n",
	"t01:\nt02:\nt03:\nt04:\nt05:\nt06:\nt07:\nt08:\nt09:\nt10:\nt11:\nt12:\nt13:\n",
}

// c13Histories: the boosts of a directory are a function of its listing, whatever was analysed before
// in the same process and whatever the earlier callers did with the maps they were given. For every
// ordered pair (A, B) of single-ecosystem and mixed directories: analyse A, scribble over the map it
// returned, analyse B; B's boosts must be the same after every A.
func c13Histories(c *lib.Ctx, dir string) {
	var cases []c13Case
	for mi := range c13MkTexts {
		cases = append(cases, c13Case{Kind: "dir", Files: []string{"Makefile"}, Mk: mi})
	}
	for pi := range c13PkgTexts {
		cases = append(cases, c13Case{Kind: "dir", Files: []string{"package.json"}, Pkg: pi})
	}
	cases = append(cases, c13Case{Kind: "dir", Files: []string{".git", "Makefile"}, Mk: 1}, c13Case{Kind: "dir", Files: []string{"go.mod"}},
		c13Case{Kind: "dir", Files: []string{"package.json", "Makefile"}, Pkg: 1, Mk: 1}, c13Case{Kind: "dir", Files: []string{"notes.txt"}})
	boosts := func(cs c13Case, scribble bool) (out string) {
		defer func() {
			if r := recover(); r != nil {
				out = fmt.Sprintf("panic: %v", r)
			}
		}()
		if !c13WriteDir(dir, cs) {
			return "err"
		}
		ctx, _ := wctx.NewAnalyzer().AnalyzeDirectory(dir)
		m := ctx.GetContextBoosts()
		j, _ := json.Marshal(m)
		if scribble && m != nil {
			for k := range m {
				m[k] = 7
			}
			m["zzjunk"] = 9
		}
		return string(j)
	}
	for bi, b := range cases {
		if !c.Mine(int64(bi)) {
			continue
		}
		ref, refAfter := "", c13Case{}
		for _, a := range cases {
			boosts(a, true)
			got := boosts(b, false)
			c.Rep.Evaluations += 2
			c.Count("analysis_histories", 1)
			if ref == "" {
				ref, refAfter = got, a
				continue
			}
			if got != ref {
				c.Violate(lib.Violation{Key: "boosts-history-dependent", What: fmt.Sprintf("the boosts of listing %v (package.json %d, Makefile %d) depend on what was analysed before it in the same process: after %v (pkg %d, mk %d) they differ from those after %v (pkg %d, mk %d)",
					b.Files, b.Pkg, b.Mk, a.Files, a.Pkg, a.Mk, refAfter.Files, refAfter.Pkg, refAfter.Mk), Case: c13Case{Kind: "history", Files: b.Files, Pkg: b.Pkg, Mk: b.Mk}, Observed: got, Expected: ref})
				break
			}
		}
	}
}

func c13WriteDir(dir string, cs c13Case) bool {
	os.RemoveAll(dir)
	if err := os.MkdirAll(dir, 0o755); err != nil {
		return false
	}
	for _, f := range cs.Files {
		p := filepath.Join(dir, f)
		switch f {
		case ".git", "node_modules":
			os.Mkdir(p, 0o755)
		case "package.json":
			os.WriteFile(p, []byte(c13PkgTexts[cs.Pkg]), 0o644)
		case "Makefile", "makefile":
			os.WriteFile(p, []byte(c13MkTexts[cs.Mk]), 0o644)
		default:
			os.WriteFile(p, []byte("x"), 0o644)
		}
	}
	return true
}

func c13Analyze(dir string, cs c13Case) (*lib.Violation, string) {
	os.RemoveAll(dir)
	if err := os.MkdirAll(dir, 0o755); err != nil {
		return nil, "err"
	}
	for _, f := range cs.Files {
		p := filepath.Join(dir, f)
		switch f {
		case ".git", "node_modules":
			os.Mkdir(p, 0o755)
		case "package.json":
			os.WriteFile(p, []byte(c13PkgTexts[cs.Pkg]), 0o644)
		case "Makefile", "makefile":
			os.WriteFile(p, []byte(c13MkTexts[cs.Mk]), 0o644)
		default:
			os.WriteFile(p, []byte("x"), 0o644)
		}
	}
	var c1, c2 *wctx.Context
	var b1 map[string]float64
	var pv any
	func() {
		defer func() { pv = recover() }()
		a := wctx.NewAnalyzer()
		c1, _ = a.AnalyzeDirectory(dir)
		c2, _ = wctx.NewAnalyzer().AnalyzeDirectory(dir)
		b1 = c1.GetContextBoosts()
	}()
	if pv != nil {
		return &lib.Violation{Key: "panic-analyzer", What: fmt.Sprintf("AnalyzeDirectory panicked: %v", pv), Case: cs}, "panic"
	}
	obs := fmt.Sprintf("%v|%v|%v|%d", c1.ProjectTypes, c1.Language, c1.BuildSystem, len(b1))
	if !reflect.DeepEqual(c1, c2) {
		return &lib.Violation{Key: "analyzer-unstable", What: "analysing the same directory twice gives different contexts", Case: cs, Observed: c1, Expected: c2}, obs
	}
	if len(c1.ProjectTypes) == 0 {
		return &lib.Violation{Key: "no-type", What: "no project type reported (not even generic)", Case: cs, Observed: c1}, obs
	}
	seen := map[wctx.ProjectType]bool{}
	for _, t := range c1.ProjectTypes {
		if seen[t] {
			return &lib.Violation{Key: "type-twice", What: fmt.Sprintf("project type %q reported twice", t), Case: cs, Observed: c1.ProjectTypes}, obs
		}
		seen[t] = true
	}
	want := map[string]bool{}
	for _, f := range cs.Files {
		if t := c13Markers[f]; t != "" {
			want[t] = true
		}
	}
	if seen[wctx.ProjectTypeGeneric] != (len(want) == 0) || (seen[wctx.ProjectTypeGeneric] && len(c1.ProjectTypes) != 1) {
		return &lib.Violation{Key: "generic", What: fmt.Sprintf("listing %v: recognised types %v, reported %v ('generic' must appear exactly when nothing is recognised, alone)", cs.Files, keysOf(want), c1.ProjectTypes), Case: cs, Observed: c1.ProjectTypes}, obs
	}
	for t := range want {
		if !seen[wctx.ProjectType(t)] {
			return &lib.Violation{Key: "type-missed", What: fmt.Sprintf("listing %v: project type %q not reported (%v)", cs.Files, t, c1.ProjectTypes), Case: cs, Observed: c1.ProjectTypes}, obs
		}
	}
	for k, v := range b1 {
		if math.IsNaN(v) || math.IsInf(v, 0) || v < 1 {
			return &lib.Violation{Key: "boost-range", What: fmt.Sprintf("boost %q = %v is not a finite number >= 1", k, v), Case: cs, Observed: b1}, obs
		}
	}
	// map-order exploration (E4): GetContextBoosts under every forced order of
	// each map it ranges over (deviation bound 1) must be the same map.
	nPoints := 0
	vmap.Choose = func(site string, n int) []int { nPoints++; return nil }
	c1.GetContextBoosts()
	vmap.Choose = nil
	for dev := 0; dev < nPoints && dev < 12; dev++ {
		for _, mode := range []string{"reverse", "rotate"} {
			k := 0
			vmap.Choose = func(site string, n int) []int {
				defer func() { k++ }()
				if k != dev {
					return nil
				}
				p := make([]int, n)
				for i := range p {
					if mode == "reverse" {
						p[i] = n - 1 - i
					} else {
						p[i] = (i + 1) % n
					}
				}
				return p
			}
			b2 := c1.GetContextBoosts()
			vmap.Choose = nil
			if !reflect.DeepEqual(b1, b2) {
				return &lib.Violation{Key: "boosts-order-dependent", What: "GetContextBoosts depends on map iteration order", Case: cs, Observed: b2, Expected: b1}, obs
			}
		}
	}
	return nil, obs
}

func keysOf(m map[string]bool) []string {
	var out []string
	for k := range m {
		out = append(out, k)
	}
	sort.Strings(out)
	return out
}

func c13Run(c *lib.Ctx) {
	vhost.Set("linux")
	defer vhost.Set("")
	pool := uPool()
	// ---- search part
	dbs := []dbSpec{{Special: "forty"}, {Special: "identical12"}}
	k := 2
	if c.Thorough() {
		k = 3
	}
	sub := []int{0, 2, 4, 5, 6, 9, 17, 20, 21, 22, 23, 24, 25}
	for _, s := range uSubsets(len(sub), k) {
		idx := make([]int, len(s))
		for i, j := range s {
			idx[i] = sub[j]
		}
		dbs = append(dbs, dbSpec{Pool: idx})
	}
	_ = pool
	var maps []map[string]float64
	for _, w := range c13BoostWords {
		for _, f := range []float64{1, 1.3, 2, 3} {
			maps = append(maps, map[string]float64{w: f})
		}
	}
	for i, w := range c13BoostWords {
		for _, w2 := range c13BoostWords[i+1:] {
			maps = append(maps, map[string]float64{w: 2, w2: 3})
		}
	}
	maps = append(maps, map[string]float64{"git": 0}, map[string]float64{"files": -2}, map[string]float64{})
	qs := uQueries(uWords, 1)
	two := uQueries([]string{"compress", "files", "git", "tar", "find", "list", "folder", "install"}, 2)
	qs = append(qs, two[8:]...)
	qs = append(qs, "compress files folder git tar find install list grep ls dir", "list dir ls grep install find tar git folder files compress qzx", "zip archive commit status log name count lines sort build create directory", "")
	var idx int64
	selfCheck := 0
	for di, spec := range dbs {
		var db *database.Database
		for qi, q := range qs {
			if !c.Mine(int64(di*len(qs) + qi)) {
				continue
			}
			if c.Expired() {
				return
			}
			if db == nil {
				db = spec.build(c)
			}
			qq := strconv.Quote(q)
			for _, nlp := range []bool{false, true} {
				for _, bm := range maps {
					for _, tcap := range []int{0, 5, 6} {
						if tcap != 0 && len(refTokens(q)) <= tcap {
							continue // the term cap only matters for queries longer than it
						}
						cs := c13Case{Kind: "search", DB: spec, Query: qq, NLP: nlp, Boosts: bm, Cap: tcap}
						v, obs := c13Search(db, cs)
						c.Rep.Evaluations += 2
						idx++
						if selfCheck < 64 {
							selfCheck++
							if _, o2 := c13Search(db, cs); o2 != obs {
								c.Fail("harness nondeterminism on %+v", cs)
							}
						}
						if v != nil {
							c.Violate(*v)
							continue
						}
						if strings.HasPrefix(obs, "changed") {
							c.Rep.Nontrivial++
							c.Count("boost_changed_scores", 1)
							if nlp {
								c.Count("boost_changed_scores_nlp", 1)
							}
						} else if len(obs) > 2 {
							c.Count("boost_left_scores_unchanged", 1)
						}
						if idx%80000 == 21 {
							c.Sample(map[string]any{"case": cs, "observed": obs})
						}
					}
				}
			}
		}
	}
	// ---- analyzer part
	names := c13MarkerNames()
	var listings [][]string
	listings = append(listings, nil)
	for _, s := range uSubsets(len(names), 2) {
		var l []string
		for _, j := range s {
			l = append(l, names[j])
		}
		listings = append(listings, l)
	}
	// every listing of 3 names in which two are markers of the same project type (a third marker can
	// sort between them: de-duplication must not depend on adjacency)
	for i, a := range names {
		for j := i + 1; j < len(names); j++ {
			b := names[j]
			if c13Markers[a] == "" || c13Markers[a] != c13Markers[b] {
				continue
			}
			for _, m := range names {
				if m != a && m != b {
					listings = append(listings, []string{a, b, m})
				}
			}
		}
	}
	if c.Thorough() {
		// all subsets of one representative marker per project type
		reps := []string{".git", "Dockerfile", "package.json", "webpack.config.js", "vite.config.ts", "setup.py", "go.mod", "Cargo.toml", "pom.xml", "app.csproj", "Gemfile", "composer.json", "CMakeLists.txt", "Makefile", "kustomization.yaml", "main.tf", "hosts", "README.md"}
		for mask := 1; mask < 1<<len(reps); mask++ {
			if popcount(mask) < 3 {
				continue
			}
			var l []string
			for i, r := range reps {
				if mask&(1<<i) != 0 {
					l = append(l, r)
				}
			}
			listings = append(listings, l)
		}
	}
	// broad queries on a database of thousands of entries: a boost must not decide which entries are candidates
	if c.Mine(11) {
		wide := dbSpec{Special: "wide3100"}
		wdb := wide.build(c)
		for _, q := range []string{"alpha beta", "beta alpha gamma", "gamma entry", "alpha"} {
			for _, bm := range []map[string]float64{{"alpha": 3}, {"beta": 3}, {"gamma": 2, "alpha": 1.3}, {"entry": 3}} {
				for _, nlp := range []bool{false, true} {
					cs := c13Case{Kind: "search", DB: wide, Query: strconv.Quote(q), NLP: nlp, Boosts: bm}
					v, _ := c13Search(wdb, cs)
					c.Rep.Evaluations += 2
					c.Count("wide_database_pairs", 1)
					if v != nil {
						v.Observed, v.Expected = nil, nil
						if len(v.What) > 600 {
							v.What = v.What[:600] + "..."
						}
						c.Violate(*v)
					}
				}
			}
		}
	}
	dir := filepath.Join(c.Scratch, "proj")
	c13Histories(c, filepath.Join(c.Scratch, "projh"))
	for li, l := range listings {
		if !c.Mine(int64(li)) {
			continue
		}
		if li%128 == c.Shard && c.Expired() {
			return
		}
		hasPkg, hasMk := false, false
		for _, f := range l {
			if f == "package.json" {
				hasPkg = true
			}
			if f == "Makefile" || f == "makefile" {
				hasMk = true
			}
		}
		np, nm := 1, 1
		if hasPkg {
			np = len(c13PkgTexts)
		}
		if hasMk {
			nm = len(c13MkTexts)
		}
		if len(l) > 3 {
			if np > 2 {
				np = 2
			}
			if nm > 2 {
				nm = 2
			}
		}
		for pi := 0; pi < np; pi++ {
			for mi := 0; mi < nm; mi++ {
				cs := c13Case{Kind: "dir", Files: l, Pkg: pi, Mk: mi}
				v, obs := c13Analyze(dir, cs)
				c.Rep.Evaluations++
				c.Count("directories_analysed", 1)
				if v != nil {
					c.Violate(*v)
					continue
				}
				if !strings.HasPrefix(obs, "[generic]") {
					c.Rep.Nontrivial++
				} else {
					c.Count("generic_directories", 1)
				}
			}
		}
	}
	os.RemoveAll(dir)
}

func popcount(x int) int {
	n := 0
	for ; x != 0; x &= x - 1 {
		n++
	}
	return n
}

func init() {
	lib.Register(&lib.Check{
		ID: "C13", Level: "model_checking",
		Rule:      "(search) databases = 40-entry, 12-identical, a 3,100-entry database whose two-word queries have posting lists of thousands of entries (4 queries x 4 boost maps) + all subsets of <=2 (quick) / <=3 (thorough) of 13 pool entries; queries = 22 one-word + 56 two-word + three 11-12-word queries (each also with TopTermsCap 5 and 6, so that the term trimming is in play) + empty; boost maps = 15 words x factors {1,1.3,2,3}, all 105 two-word maps with factors {2,3}, a zero, a negative and an empty map; NLP off/on; each as a pair (without, with boosts) at Limit>=N: same candidate set, boosted-word entries never lower, other entries bit-identical. (analyzer) every listing of <=2 names from 51 marker / non-marker names + every listing of 3 names two of which are markers of the same project type (thorough: + all subsets of >=3 of 18 representative markers) x 9 package.json x 9 Makefile texts (one of each with 13 scripts / targets) on a real tmpfs directory: determinism, no duplicate type, generic exactly when nothing recognised, no recognised type missed, finite boosts >=1, GetContextBoosts invariant under forced map orders; and every ordered pair (A, B) of 22 single-ecosystem / mixed directories analysed one after the other in one process, the map returned for A overwritten by its caller: B's boosts are the same after every A. non-trivial = pairs whose scores differ / non-generic directories",
		Assume:    []string{"map order pinned in searches; explored (deviation bound 1, reverse and rotate) in GetContextBoosts", "marker table copied from the analyzer's documented file names"},
		QuickSecs: 240, ThorSecs: 1800,
		Run: c13Run,
		Replay: func(c *lib.Ctx, raw json.RawMessage) []lib.Violation {
			vhost.Set("linux")
			defer vhost.Set("")
			var cs c13Case
			if json.Unmarshal(raw, &cs) != nil {
				return nil
			}
			var v *lib.Violation
			if cs.Kind == "history" {
				cc := *c
				cc.Rep = &lib.Report{Counters: map[string]int64{}}
				c13Histories(&cc, filepath.Join(c.Scratch, "projh"))
				var out []lib.Violation
				for _, hv := range cc.Rep.Violations {
					if hc, ok := hv.Case.(c13Case); ok && fmt.Sprint(hc.Files) == fmt.Sprint(cs.Files) && hc.Pkg == cs.Pkg && hc.Mk == cs.Mk {
						out = append(out, hv)
					}
				}
				return out
			}
			if cs.Kind == "dir" {
				v, _ = c13Analyze(filepath.Join(c.Scratch, "proj"), cs)
			} else {
				v, _ = c13Search(cs.DB.build(c), cs)
			}
			if v != nil {
				return []lib.Violation{*v}
			}
			return nil
		},
		Finish: func(m *lib.Report, tier string) string {
			if !m.Exhaustive {
				return ""
			}
			for _, k := range []string{"boost_changed_scores", "boost_changed_scores_nlp", "boost_left_scores_unchanged", "directories_analysed", "generic_directories"} {
				if m.Counters[k] == 0 {
					return "vacuous: counter " + k + " is zero"
				}
			}
			return ""
		},
	})
}

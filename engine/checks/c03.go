package checks

import (
	"encoding/json"
	"fmt"
	"math"
	"os"
	"path/filepath"
	"sort"
	"strconv"
	"strings"

	"github.com/Vedant9500/WTF/internal/database"
	"github.com/Vedant9500/WTF/internal/zzvrt/vhost"
	"github.com/Vedant9500/WTF/zzverif/lib"
	"gopkg.in/yaml.v3"
)

// C03 — the inverted index answers like an exhaustive scan of the commands.
// (a) static universe: every subset of <=3 pool entries x queries x
// all-platforms on/off x per-term boost, SearchUniversal(UseNLP=false) against
// an independent BM25F scorer that scans the command texts; (b) histories of
// load / merge / replace / grow / literal operations of length <=3 (quick) /
// <=4 (thorough), the same comparison after the last step of every history
// (shorter histories are enumerated on their own), plus a differential check
// of the NLP re-ranker against a freshly loaded database.

// ---------------------------------------------------------------- reference scorer

type refDoc struct {
	tf   [4]map[string]int
	lens [4]int
}

type refIndex struct {
	docs []refDoc
	df   map[string]int
	avg  [4]float64
}

func buildRef(cmds []Cmd) *refIndex {
	r := &refIndex{df: map[string]int{}}
	var sums [4]int
	for i := range cmds {
		a, b, c, d := refFieldTokens(&cmds[i])
		var doc refDoc
		seen := map[string]bool{}
		for f, toks := range [][]string{a, b, c, d} {
			doc.tf[f] = map[string]int{}
			doc.lens[f] = len(toks)
			sums[f] += len(toks)
			for _, t := range toks {
				doc.tf[f][t]++
				seen[t] = true
			}
		}
		for t := range seen {
			r.df[t]++
		}
		r.docs = append(r.docs, doc)
	}
	for f := range sums {
		if len(cmds) > 0 {
			r.avg[f] = float64(sums[f]) / float64(len(cmds))
		}
	}
	return r
}

func (r *refIndex) has(i int, term string) bool {
	for f := 0; f < 4; f++ {
		if r.docs[i].tf[f][term] > 0 {
			return true
		}
	}
	return false
}

// termScore is idf(term) * sum over fields of the field-weighted BM25 part.
func (r *refIndex) termScore(i int, term string, p bm25Params) float64 {
	n, df := float64(len(r.docs)), float64(r.df[term])
	if df == 0 {
		return 0
	}
	idf := math.Log((n-df+0.5)/(df+0.5) + 1)
	w := [4]float64{p.WCmd, p.WDesc, p.WKeys, p.WTags}
	b := [4]float64{p.BCmd, p.BDesc, p.BKeys, p.BTags}
	var s float64
	for f := 0; f < 4; f++ {
		tf := float64(r.docs[i].tf[f][term])
		if tf == 0 {
			continue
		}
		avg := r.avg[f]
		if avg <= 0 {
			avg = 1
		}
		norm := (1 - b[f]) + b[f]*(float64(r.docs[i].lens[f])/avg)
		s += (w[f] * tf * (p.K1 + 1)) / (w[f]*tf + p.K1*norm)
	}
	return idf * s
}

// ---------------------------------------------------------------- histories

type c03Op struct {
	Kind     string `json:"op"` // load loadp update grow literal
	F        []int  `json:"f,omitempty"`
	P        []int  `json:"p,omitempty"`
	Personal string `json:"personal,omitempty"` // absent | empty | entries
	E        int    `json:"e,omitempty"`
}

type c03Case struct {
	Ops   []c03Op `json:"ops"`
	Query string  `json:"query_quoted"`
	All   bool    `json:"all_platforms"`
	Boost string  `json:"boost_word,omitempty"`
	NLP   bool    `json:"nlp_differential,omitempty"`
}

func writeYAML(path string, cmds []Cmd) error {
	b, err := yaml.Marshal(cmds)
	if err != nil {
		return err
	}
	if len(cmds) == 0 {
		b = []byte("[]\n")
	}
	return os.WriteFile(path, b, 0o644)
}

// c03Exec runs a history on real objects and returns the database object the
// next search would use, the commands it is expected to hold and whether the
// object was ever given a re-ranker.
func c03Exec(dir string, ops []c03Op) (db *database.Database, want []Cmd, reranker bool, err error) {
	defer func() {
		if r := recover(); r != nil {
			err = fmt.Errorf("PANIC: %v", r)
		}
	}()
	pool := uPool()
	main, pers := filepath.Join(dir, "main.yml"), filepath.Join(dir, "personal.yml")
	loaded := func(idx []int) ([]Cmd, error) {
		if e := writeYAML(main, uPick(pool, idx)); e != nil {
			return nil, e
		}
		d, e := database.LoadDatabase(main)
		if e != nil {
			return nil, e
		}
		return d.Commands, nil
	}
	for _, op := range ops {
		switch op.Kind {
		case "load":
			if err = writeYAML(main, uPick(pool, op.F)); err != nil {
				return
			}
			if db, err = database.LoadDatabase(main); err != nil {
				return
			}
			want, reranker = uPick(pool, op.F), true
		case "loadp":
			if err = writeYAML(main, uPick(pool, op.F)); err != nil {
				return
			}
			os.Remove(pers)
			var p []Cmd
			switch op.Personal {
			case "empty":
				err = writeYAML(pers, nil)
			case "entries":
				p = uPick(pool, op.P)
				err = writeYAML(pers, p)
			}
			if err != nil {
				return
			}
			if db, err = database.LoadDatabaseWithPersonal(main, pers); err != nil {
				return
			}
			want = append(append([]Cmd{}, uPick(pool, op.F)...), p...)
			reranker = true
		case "update":
			var cmds []Cmd
			if cmds, err = loaded(op.F); err != nil {
				return
			}
			if db == nil {
				db = &database.Database{}
			}
			cdb := database.NewCachedDatabase(db)
			cdb.UpdateDatabase(cmds)
			db = cdb.Database
			want, reranker = uPick(pool, op.F), true
		case "grow":
			var cmds []Cmd
			if cmds, err = loaded([]int{op.E}); err != nil {
				return
			}
			if db == nil {
				db = &database.Database{}
			}
			// searching first makes sure the indexes for the old list exist
			db.SearchUniversal("git", Opts{Limit: 3})
			db.Commands = append(db.Commands, cmds[0])
			want = append(append([]Cmd{}, want...), pool[op.E])
		case "shrink":
			// direct removal of the last command (a count change the lazy rebuild must notice)
			if db == nil || len(db.Commands) < 2 {
				continue
			}
			db.SearchUniversal("git", Opts{Limit: 3})
			db.Commands = db.Commands[:len(db.Commands)-1]
			want = append([]Cmd{}, want[:len(want)-1]...)
		case "assign":
			// direct replacement by a list of a different length
			var cmds []Cmd
			if cmds, err = loaded(op.F); err != nil {
				return
			}
			if db == nil || len(db.Commands) == len(cmds) {
				continue
			}
			db.SearchUniversal("git", Opts{Limit: 3})
			db.Commands = cmds
			want = uPick(pool, op.F)
		case "literal":
			var cmds []Cmd
			if cmds, err = loaded(op.F); err != nil {
				return
			}
			db = &database.Database{Commands: cmds}
			want, reranker = uPick(pool, op.F), false
		}
	}
	if db == nil {
		db = &database.Database{}
	}
	return
}

func c03Opts(cs c03Case, n int) Opts {
	o := Opts{Limit: n + 5, AllPlatforms: cs.All}
	if cs.Boost != "" {
		o.ContextBoosts = map[string]float64{cs.Boost: 2}
	}
	return o
}

// c03Check compares one search on db with the reference scan of want.
func c03Check(db *database.Database, want []Cmd, ref *refIndex, cs c03Case) (*lib.Violation, string) {
	q, _ := strconv.Unquote(cs.Query)
	o := c03Opts(cs, len(want))
	var items []resItem
	var pv any
	func() {
		defer func() { pv = recover() }()
		items = uItems(db, db.SearchUniversal(q, o))
	}()
	if pv != nil {
		return &lib.Violation{Key: "panic", What: fmt.Sprintf("SearchUniversal panicked after history: %v", pv), Case: cs}, "panic"
	}
	obs := uDigest(items)
	if len(db.Commands) != len(want) {
		return &lib.Violation{Key: "history-commands", What: fmt.Sprintf("database holds %d commands, history implies %d", len(db.Commands), len(want)), Case: cs}, obs
	}
	terms := refTokens(q)
	p := accParams(db)
	distinct := []string{}
	seenT := map[string]bool{}
	for _, t := range terms {
		if !seenT[t] {
			seenT[t] = true
			distinct = append(distinct, t)
		}
	}
	long := len(terms) > 10
	boost := func(t string) float64 {
		if cs.Boost != "" && t == cs.Boost {
			return 2
		}
		return 1
	}
	got := map[int]float64{}
	for _, it := range items {
		if it.Idx < 0 {
			return &lib.Violation{Key: "foreign-entry", What: "a result is not an entry of the searched command list (stale index or address map)", Case: cs, Observed: items}, obs
		}
		if _, dup := got[it.Idx]; dup {
			return &lib.Violation{Key: "duplicate", What: fmt.Sprintf("entry %d returned twice", it.Idx), Case: cs, Observed: items}, obs
		}
		got[it.Idx] = it.Score
	}
	for i := range want {
		elig := refEligible(&want[i], o, "linux")
		var full, first4 float64
		anyTerm, anyFirst4 := false, false
		for _, t := range terms {
			if ref.has(i, t) {
				anyTerm = true
				full += boost(t) * ref.termScore(i, t, p)
			}
		}
		for k, t := range distinct {
			if k < 4 && ref.has(i, t) {
				anyFirst4 = true
				first4 += boost(t) * ref.termScore(i, t, p)
			}
		}
		sc, present := got[i]
		desc := fmt.Sprintf("entry %d (%q)", i, want[i].Command)
		if !long {
			expect := elig && anyTerm
			if present != expect {
				key := "missing-match"
				if present {
					key = "spurious-result"
				}
				return &lib.Violation{Key: key, What: fmt.Sprintf("%s: returned=%v but exhaustive scan says eligible=%v matches=%v for query %s", desc, present, elig, anyTerm, cs.Query), Case: cs, Observed: items,
					GoTest: fmt.Sprintf("SearchUniversal(%s, %s) after %+v", cs.Query, uOptsString(o), cs.Ops)}, obs
			}
			if present && math.Abs(sc-full) > 1e-9*math.Max(1, math.Abs(full)) {
				return &lib.Violation{Key: "score", What: fmt.Sprintf("%s: score %.12g, BM25F recomputed from the texts %.12g (query %s)", desc, sc, full, cs.Query), Case: cs, Observed: items, Expected: full}, obs
			}
		} else {
			if elig && anyFirst4 && !present {
				return &lib.Violation{Key: "missing-match-long", What: fmt.Sprintf("%s matches one of the first four content words of a long query but is not returned", desc), Case: cs, Observed: items}, obs
			}
			if present && !(elig && anyTerm) {
				return &lib.Violation{Key: "spurious-result", What: fmt.Sprintf("%s returned for a long query but eligible=%v matches=%v", desc, elig, anyTerm), Case: cs, Observed: items}, obs
			}
			if present && (sc < first4*(1-1e-9)-1e-12 || sc > full*(1+1e-9)+1e-12) {
				return &lib.Violation{Key: "score-envelope", What: fmt.Sprintf("%s: score %.12g outside [%.12g, %.12g]", desc, sc, first4, full), Case: cs, Observed: items}, obs
			}
		}
	}
	for i := 1; i < len(items); i++ {
		if items[i].Score > items[i-1].Score {
			return &lib.Violation{Key: "order", What: "results not in non-increasing score order", Case: cs, Observed: items}, obs
		}
	}
	return nil, obs
}

// c03NLPDiff: the same NLP search on the history-built object and on a
// database freshly loaded from the same commands must agree exactly.
func c03NLPDiff(dir string, db *database.Database, want []Cmd, cs c03Case) (*lib.Violation, string) {
	q, _ := strconv.Unquote(cs.Query)
	o := Opts{Limit: len(want) + 5, AllPlatforms: true, UseNLP: true}
	fp := filepath.Join(dir, "fresh.yml")
	if err := writeYAML(fp, want); err != nil {
		return nil, "err"
	}
	fresh, err := database.LoadDatabase(fp)
	if err != nil {
		return nil, "err"
	}
	var a, b []resItem
	var pv any
	func() {
		defer func() { pv = recover() }()
		a = uItems(db, db.SearchUniversal(q, o))
		b = uItems(fresh, fresh.SearchUniversal(q, o))
	}()
	if pv != nil {
		return &lib.Violation{Key: "panic", What: fmt.Sprintf("NLP search panicked after history: %v", pv), Case: cs}, "panic"
	}
	if uDigest(a) != uDigest(b) {
		return &lib.Violation{Key: "stale-reranker", What: fmt.Sprintf("NLP search for %s after history %+v differs from the same search on a freshly loaded copy of the same commands (index or re-ranker lags behind)", cs.Query, cs.Ops), Case: cs, Observed: a, Expected: b}, uDigest(a)
	}
	return nil, uDigest(a)
}

var c03Long = []string{
	"compress find files folder git dir tar qzx install grep ls list",
	"git git files files compress compress tar tar find find list list zip",
	"zzz yyy www vvv compress uuu ttt sss rrr qqq ppp files git",
	"list zip archive commit status log directory name count lines sort build",
}

// c03TargetedLong builds long queries from the texts of one database so that the term cap has to choose:
// the first four words are the most common indexed words (lowest idf) and, within each query, sort
// alphabetically after / before the eight rare words that follow. Whatever the cap keeps besides, the
// statement requires every eligible entry containing one of the first four to be returned.
func c03TargetedLong(cmds []Cmd) []string {
	df := map[string]int{}
	for _, cm := range cmds {
		seen := map[string]bool{}
		for _, t := range refTokens(strings.Join(append(append([]string{cm.Command, cm.Description}, cm.Keywords...), cm.Tags...), " ")) {
			if !seen[t] {
				seen[t] = true
				df[t]++
			}
		}
	}
	var words []string
	for w := range df {
		// keep words the tokenizer gives back unchanged as a query term
		if ts := refTokens(w); len(ts) == 1 && ts[0] == w {
			words = append(words, w)
		}
	}
	sort.Strings(words)
	common := append([]string{}, words...)
	sort.SliceStable(common, func(i, j int) bool { return df[common[i]] > df[common[j]] })
	var rare []string
	for _, w := range words {
		if df[w] == 1 {
			rare = append(rare, w)
		}
	}
	if len(common) < 4 || len(rare) < 16 {
		return nil
	}
	first := common[:4]
	in := map[string]bool{}
	for _, w := range first {
		in[w] = true
	}
	pick := func(from []string) []string {
		var out []string
		for _, w := range from {
			if !in[w] && len(out) < 8 {
				out = append(out, w)
			}
		}
		return out
	}
	early := pick(rare) // alphabetically smallest rare words
	rev := append([]string{}, rare...)
	sort.Sort(sort.Reverse(sort.StringSlice(rev)))
	late := pick(rev) // alphabetically largest rare words
	// the same with the first four in reverse order
	f2 := []string{first[3], first[2], first[1], first[0]}
	return []string{strings.Join(append(append([]string{}, first...), early...), " "), strings.Join(append(append([]string{}, first...), late...), " "),
		strings.Join(append(append([]string{}, f2...), early...), " ")}
}

func c03Queries(static bool) []string {
	qs := uQueries(uWords, 1)
	content := []string{"compress", "files", "git", "tar", "qzx", "list", "folder", "install", "café", "COMPRESS"}
	if !static {
		content = content[:6]
	}
	qs = append(qs, uQueries(content, 2)[len(content):]...)
	qs = append(qs, c03Long...)
	qs = append(qs, "", "x", "commit status archive")
	return qs
}

func c03OpAlphabet() []c03Op {
	F := [][]int{{0, 4}, {4, 5, 22}, {2, 3, 7, 8}, {25}}
	var ops []c03Op
	for _, f := range F {
		ops = append(ops, c03Op{Kind: "load", F: f})
	}
	for _, f := range F[:3] {
		ops = append(ops, c03Op{Kind: "loadp", F: f, Personal: "absent"}, c03Op{Kind: "loadp", F: f, Personal: "empty"},
			c03Op{Kind: "loadp", F: f, Personal: "entries", P: []int{21}}, c03Op{Kind: "loadp", F: f, Personal: "entries", P: []int{6, 0}})
	}
	for _, f := range [][]int{{5, 6}, {17}, {0, 1, 4, 22, 23}, {4, 0}} {
		ops = append(ops, c03Op{Kind: "update", F: f})
	}
	ops = append(ops, c03Op{Kind: "grow", E: 5}, c03Op{Kind: "grow", E: 0}, c03Op{Kind: "shrink"}, c03Op{Kind: "assign", F: []int{6}})
	ops = append(ops, c03Op{Kind: "literal", F: []int{4, 6}}, c03Op{Kind: "literal", F: []int{0, 5, 17}})
	return ops
}

func c03Run(c *lib.Ctx) {
	vhost.Set("linux")
	pool := uPool()
	_ = pool
	var idx int64
	selfCheck := 0
	// (a) static universe
	subs := uSubsets(uPoolCore, 3)
	subs = append(subs, []int{0, 1, 4, 5, 22, 23}, []int{20, 21, 24, 25, 2, 3, 7, 8, 9})
	all31 := make([]int, uPoolCore)
	for i := range all31 {
		all31[i] = i
	}
	subs = append(subs, all31)
	// twelve / thirty entries that all contain the same words (document frequency = N: the lowest idf there is)
	subs = append(subs, []int{0, 1, 0, 1, 0, 1, 0, 1, 0, 1, 0, 1})
	thirty := []int{4}
	for i := 0; i < 29; i++ {
		thirty = append(thirty, []int{0, 1, 2, 3}[i%4])
	}
	subs = append(subs, thirty)
	// 1027 entries (pool entries repeated; not a multiple of any small shard count): builds that split the work
	big := make([]int, 1027)
	for i := range big {
		big[i] = (i * 5) % uPoolCore
	}
	subs = append(subs, big)
	qsStatic := c03Queries(true)
	for di, s := range subs {
		if !c.Mine(int64(di)) {
			continue
		}
		if c.Expired() {
			return
		}
		ops := []c03Op{{Kind: "load", F: s}}
		db, want, _, err := c03Exec(c.Scratch, ops)
		if err != nil {
			c.Fail("static db %v: %v", s, err)
			return
		}
		ref := buildRef(want)
		qsDB := qsStatic
		if len(s) > 100 {
			// every entry of a large database is compared for every query: a short list, the last entries' words among them
			qsDB = []string{"git", "files", "compress", "mkdir", "café", "git files", "list files folder", "qzx", "version control", "sudo docker", "nohup find core", c03Long[0]}
		} else if len(s) >= 6 {
			// long queries aimed at the term cap of this very database (see c03TargetedLong)
			qsDB = append(append([]string{}, qsStatic...), c03TargetedLong(want)...)
		}
		for _, q := range qsDB {
			toks := refTokens(q)
			for _, all := range []bool{true, false} {
				for b := 0; b < 3; b++ {
					cs := c03Case{Ops: ops, Query: strconv.Quote(q), All: all}
					if b >= 1 {
						if len(toks) == 0 || (b == 2 && len(toks) < 2) {
							continue
						}
						// boost the last term, and (separately) the first one: a boost must not reach other terms
						cs.Boost = toks[len(toks)-1]
						if b == 2 {
							cs.Boost = toks[0]
							if cs.Boost == toks[len(toks)-1] {
								continue
							}
						}
					}
					v, obs := c03Check(db, want, ref, cs)
					c.Rep.Evaluations++
					idx++
					if obs != "" {
						c.Rep.Nontrivial++
					}
					if selfCheck < 64 {
						selfCheck++
						if _, o2 := c03Check(db, want, ref, cs); o2 != obs {
							c.Fail("harness nondeterminism on %+v", cs)
						}
					}
					if v != nil {
						c.Violate(*v)
					}
					if len(toks) > 10 {
						c.Count("long_query_cases", 1)
					}
					if idx%40000 == 5 {
						c.Sample(map[string]any{"case": cs, "observed": obs})
					}
				}
			}
		}
	}
	c.Count("static_databases", int64(len(subs))/int64(c.NShards))
	// (b) histories
	depth := 3
	if c.Thorough() {
		depth = 4
	}
	alpha := c03OpAlphabet()
	qsHist := c03Queries(false)
	var hidx int64
	for _, seq := range uSequences(len(alpha), depth) {
		hidx++
		if !c.Mine(hidx) {
			continue
		}
		if hidx%64 == int64(c.Shard) && c.Expired() {
			return
		}
		ops := make([]c03Op, len(seq))
		for i, j := range seq {
			ops[i] = alpha[j]
		}
		db, want, reranker, err := c03Exec(c.Scratch, ops)
		if err != nil {
			if strings.HasPrefix(err.Error(), "PANIC") {
				c.Violate(lib.Violation{Key: "panic-in-history", What: fmt.Sprintf("history %+v: %v", ops, err), Case: c03Case{Ops: ops, Query: strconv.Quote("git")}})
				continue
			}
			c.Fail("history %+v: %v", ops, err)
			return
		}
		c.Rep.Transitions += int64(len(ops))
		c.Count("histories", 1)
		if len(ops) > 1 {
			c.Count("histories_len"+strconv.Itoa(len(ops)), 1)
		}
		ref := buildRef(want)
		for qi, q := range qsHist {
			for _, all := range []bool{true, false} {
				cs := c03Case{Ops: ops, Query: strconv.Quote(q), All: all}
				v, obs := c03Check(db, want, ref, cs)
				c.Rep.Evaluations++
				if obs != "" {
					c.Rep.Nontrivial++
				}
				if v != nil {
					c.Violate(*v)
				}
			}
			if reranker && qi%3 == 0 {
				cs := c03Case{Ops: ops, Query: strconv.Quote(q), All: true, NLP: true}
				v, obs := c03NLPDiff(c.Scratch, db, want, cs)
				c.Rep.Evaluations++
				c.Count("nlp_differential_cases", 1)
				if obs != "" {
					c.Rep.Nontrivial++
				}
				if v != nil {
					c.Violate(*v)
				}
			}
		}
	}
}

func c03Replay(c *lib.Ctx, raw json.RawMessage) []lib.Violation {
	vhost.Set("linux")
	var cs c03Case
	if json.Unmarshal(raw, &cs) != nil {
		return nil
	}
	db, want, _, err := c03Exec(c.Scratch, cs.Ops)
	if err != nil {
		if strings.HasPrefix(err.Error(), "PANIC") {
			return []lib.Violation{{Key: "panic-in-history", What: err.Error(), Case: cs}}
		}
		return nil
	}
	var v *lib.Violation
	if cs.NLP {
		v, _ = c03NLPDiff(c.Scratch, db, want, cs)
	} else {
		v, _ = c03Check(db, want, buildRef(want), cs)
	}
	if v != nil {
		return []lib.Violation{*v}
	}
	return nil
}

func init() {
	_ = sort.Ints
	_ = strings.Join
	lib.Register(&lib.Check{
		ID: "C03", Level: "model_checking",
		Rule:      "(a) every subset of <=3 entries of the 31-entry pool (+6 larger sets, two of them made of 12 / 30 entries that share their words and one of 1027 entries, searched with 12 queries) loaded by the real loader x {22 one-word, 90 two-word, 4 long (>10 terms), 3 special} queries (+ for the 3 larger sets - 6, 9 and all 31 entries - three 12-word queries built from the database itself: its four most common words first, then eight words that occur once and sort before / after them, so that the term cap must drop something) x all-platforms on/off x {no boost, boost 2 on the query's last term, boost 2 on its first term}: SearchUniversal(UseNLP=false, Limit>=N) result set and scores against an independent scorer that scans the command texts (parameters read through the accessor: " + accMode + "); (b) every history of length <=3 (quick) / <=4 (thorough) over 28 operations {LoadDatabase x4, LoadDatabaseWithPersonal x12 (absent/empty/1/2-entry notebook), UpdateDatabase x4, direct growth x2, direct shrink, direct assignment of a list of another length, literal construction x2}: the same comparison after the last step for 53 queries x all-platforms on/off, plus NLP-on search compared bit-for-bit with a freshly loaded copy of the same commands. evaluations = searches compared; non-trivial = searches with a non-empty answer",
		Assume:    []string{"host platform pinned to linux (vhost), map order pinned (vmap)", "tokenizer reference composed from the repository's exported NormalizeText and StopWords", "for >10 terms only the stated envelope is required"},
		QuickSecs: 150, ThorSecs: 1500, Graph: true,
		Run: c03Run, Replay: c03Replay,
		Finish: func(m *lib.Report, tier string) string {
			if !m.Exhaustive {
				return ""
			}
			for _, k := range []string{"long_query_cases", "histories_len2", "histories_len3", "nlp_differential_cases"} {
				if m.Counters[k] == 0 {
					return "vacuous: counter " + k + " is zero"
				}
			}
			return ""
		},
	})
}

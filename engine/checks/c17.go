package checks

import (
	"encoding/json"
	"fmt"
	"os"
	"path/filepath"
	"regexp"
	"sort"
	"strconv"
	"strings"
	"time"

	"github.com/Vedant9500/WTF/internal/constants"
	"github.com/Vedant9500/WTF/internal/history"
	"github.com/Vedant9500/WTF/internal/recovery"
	"github.com/Vedant9500/WTF/internal/validation"
	"github.com/Vedant9500/WTF/internal/zzvrt/vtime"
	"github.com/Vedant9500/WTF/zzverif/lib"
)

// C17 — every CLI command runs, and search output matches the engine's answer.
// Engine E6: the real binary in an isolated home. (a) every sub-command x
// argument vectors of <=3 atoms; (b) the full product database x query class
// x --limit x --format x -v x colour switch x platform flags, each compared
// with the engine driven in-process with the options the CLI constructs.

type c17Case struct {
	Args  []string `json:"argv_quoted"`
	DB    string   `json:"db,omitempty"`
	Query string   `json:"query_quoted,omitempty"`
	Env   []string `json:"env,omitempty"`
	Prev  string   `json:"previous_query_quoted,omitempty"`
	Hist  bool     `json:"history_populated,omitempty"`
}

func (cs c17Case) argv() []string {
	out := make([]string, len(cs.Args))
	for i, a := range cs.Args {
		out[i] = uq(a)
	}
	return out
}

func qAll(a []string) []string {
	out := make([]string, len(a))
	for i, s := range a {
		out[i] = q(s)
	}
	return out
}

var ansiRe = regexp.MustCompile("\x1b\\[[0-9;]*m")

func crashed(r cliResult) string {
	switch {
	case r.TimedOut:
		return "timed out (30 s)"
	case r.Signal != "":
		return "killed by signal " + r.Signal
	case strings.Contains(r.Err, "panic:") || strings.Contains(r.Err, "goroutine ") || strings.Contains(r.Out, "panic:"):
		return "panicked: " + truncStr(r.Err, 300)
	case r.Exit != 0 && r.Exit != 1:
		return fmt.Sprintf("exit status %d: %s", r.Exit, truncStr(r.Err, 200))
	}
	return ""
}

// ---------------------------------------------------------------- (a) sub-commands

var c17Subcommands = [][]string{
	{"search"}, {}, {"pipeline"}, {"save"}, {"save-pipeline"}, {"history"}, {"alias"}, {"alias", "add"}, {"alias", "list"}, {"alias", "remove"},
	{"setup"}, {"wizard"}, {"help"}, {"--version"}, {"--help"}, {"completion", "bash"}, {"history", "--stats"}, {"history", "--top"}, {"history", "--clear"},
}

func c17ArgAtoms() []string {
	return []string{"files", "list all files", "-x", "--", "", strings.Repeat("a", 1001), "a;b|c&$<>", "42", "--limit", "tar", "--format=json", "--limit=-1"}
}

func c17Subcmd(c *lib.Ctx, bin string, cs c17Case) *lib.Violation {
	env := newCLIEnv(filepath.Join(c.Scratch, "c17a"))
	writeYAML(filepath.Join(env.Cwd, "commands.yml"), uPick(uPool(), []int{0, 4, 6, 17}))
	if cs.Hist {
		// not the initial state: earlier searches have been recorded (their words are argument atoms too)
		os.MkdirAll(filepath.Dir(env.HistoryPath()), 0o755)
		h := history.NewSearchHistory(env.HistoryPath(), 100)
		for i, hq := range []string{"files", "list all files", "tar", "42", "files"} {
			h.AddEntry(hq, i, "generic", time.Duration(i+1)*time.Millisecond)
		}
		if err := h.Save(); err != nil {
			c.Fail("cannot prepare a history file: %v", err)
		}
	}
	r := env.runWith(bin, cs.Env, []byte{}, cs.argv()...)
	if why := crashed(r); why != "" {
		sub := "root"
		if len(cs.Args) > 0 {
			sub = uq(cs.Args[0])
		}
		return &lib.Violation{Key: "subcommand-crash:" + sub, What: fmt.Sprintf("wtf %s %s", strings.Join(cs.Args, " "), why), Case: cs}
	}
	return nil
}

// ---------------------------------------------------------------- (b) search output vs engine

type c17DB struct {
	Name string
	Cmds []Cmd
	Raw  string // file content when not from Cmds
	Miss bool
}

func c17DBs() []c17DB {
	pool := uPool()
	return []c17DB{
		// two pool entries and one whose texts contain per-cent signs (format verbs) and a closing quote after one
		{Name: "two", Cmds: append(uPick(pool, []int{0, 4}), Cmd{Command: "date +%Y-%m-%d", Description: "Print the date, list files at 100%", Keywords: []string{"date", "files", "100%"}, Niche: "50%s"},
			// texts that are long in bytes but short in characters (table columns are cut to a width)
			Cmd{Command: strings.Repeat("\u00e9", 30) + " files", Description: strings.Repeat("\u00fc\u00df ", 40) + "list files", Keywords: []string{"files", "list"}, Niche: strings.Repeat("\u00f1", 15)})},
		{Name: "ties12", Cmds: uIdentical(12)},
		{Name: "forty", Cmds: uForty()},
		{Name: "linuxonly", Cmds: []Cmd{{Command: "frobnicate --all", Description: "Frobnicate every widget", Keywords: []string{"frob"}, Platform: []string{"linux"}},
			{Command: "qzx list", Description: "List widgets", Keywords: []string{"widgets"}, Platform: []string{"linux"}},
			{Command: "pkg_frob -a", Description: "Frobnicate widgets the BSD way", Keywords: []string{"frob", "widgets"}, Platform: []string{"bsd"}}}},
		{Name: "damaged", Raw: "- command: \"unterminated\n  description: x\n"},
		{Name: "missing", Miss: true},
	}
}

var c17Queries = []string{"git commit", "unpack", "gt cmmit", "zzzzzzzzzz epos", "qqqq wwww", "list files", "a;b", strings.Repeat("x", 1001), "GIT   Commit ", "files"}

type c17Expect struct {
	Rejected bool
	Cmds     []string // command strings in rank order
	Scores   []float64
	Stage    string
	Query    string // cleaned
}

// c17Engine replicates what the search command does with its flags, calling
// the same exported functions in-process.
func c17Engine(dbPath, personal, query string, limit int, hasLimit bool, platforms []string, all, noCross bool) c17Expect {
	clean, err := validation.ValidateQuery(query)
	if err != nil {
		return c17Expect{Rejected: true}
	}
	l := 0
	if hasLimit {
		l = limit
	}
	vl, err := validation.ValidateLimit(l)
	if err != nil {
		return c17Expect{Rejected: true}
	}
	max := constants.DefaultMaxResults
	if vl > 0 {
		max = vl
	}
	old := os.Stdout
	dn, _ := os.OpenFile(os.DevNull, os.O_WRONLY, 0)
	os.Stdout = dn
	defer func() { os.Stdout = old; dn.Close() }()
	vtime.Enable() // the loader's back-off sleeps are virtual in the in-process replica
	defer vtime.Disable()
	db, err := recovery.NewDatabaseRecovery(recovery.DefaultRetryConfig()).LoadDatabaseWithFallback(dbPath, personal)
	if err != nil || db == nil {
		return c17Expect{Rejected: true}
	}
	o := Opts{Limit: max, UseFuzzy: true, FuzzyThreshold: -30, UseNLP: true, AllPlatforms: all, Platforms: platforms, NoCrossPlatform: noCross,
		ContextBoosts: map[string]float64{}}
	rs := db.SearchUniversal(clean, o)
	stage := "engine"
	if len(rs) == 0 {
		rec, rerr := recovery.NewSearchRecovery().RecoverFromSearchFailure(clean, nil, db)
		if rerr == nil && len(rec) > 0 {
			rs = rec
			stage = "recovery"
			if len(rs) > max {
				rs = rs[:max]
			}
		}
	}
	sort.SliceStable(rs, func(i, j int) bool { return rs[i].Score > rs[j].Score })
	ex := c17Expect{Stage: stage, Query: clean}
	if len(rs) == 0 {
		ex.Stage = "none"
	}
	for _, r := range rs {
		ex.Cmds = append(ex.Cmds, r.Command.Command)
		ex.Scores = append(ex.Scores, r.Score)
	}
	return ex
}

// c17Parse extracts the printed commands from stdout for the given format.
func c17Parse(out, format string) (cmds []string, jsonOK bool, jsonItems int, err string) {
	plain := ansiRe.ReplaceAllString(out, "")
	switch strings.ToLower(format) {
	case "json":
		i := strings.Index(plain, "\n[")
		if strings.HasPrefix(plain, "[") {
			i = -1
			plain = "\n" + plain
			i = 0
		}
		if i < 0 {
			return nil, false, 0, ""
		}
		body := plain[i+1:]
		if j := strings.Index(body, "\n]"); j >= 0 {
			body = body[:j+2]
		}
		var items []map[string]any
		if e := json.Unmarshal([]byte(body), &items); e != nil {
			return nil, false, 0, "result block is not a JSON array of objects: " + e.Error()
		}
		for _, it := range items {
			c, _ := it["command"].(string)
			cmds = append(cmds, c)
		}
		return cmds, true, len(items), ""
	case "table":
		for _, l := range strings.Split(plain, "\n") {
			f := strings.Fields(l)
			if len(f) >= 2 {
				if n, e := strconv.Atoi(f[0]); e == nil && n == len(cmds)+1 && len(l) > 4 {
					c := strings.TrimRight(l[4:min(len(l), 4+48)], " ")
					cmds = append(cmds, c)
				}
			}
		}
		return cmds, false, 0, ""
	default:
		re := regexp.MustCompile(`^(\d+)\. (.*)$`)
		for _, l := range strings.Split(plain, "\n") {
			if m := re.FindStringSubmatch(l); m != nil {
				if n, _ := strconv.Atoi(m[1]); n == len(cmds)+1 {
					cmds = append(cmds, m[2])
				}
			}
		}
		return cmds, false, 0, ""
	}
}

func tableForm(c string) string {
	if len(c) > 48 {
		return c[:45] + "..."
	}
	return c
}

type c17SearchSpec struct {
	DB       c17DB
	Query    string
	Limit    string // "" absent
	Format   string // "" absent
	Verbose  bool
	Color    string // "", "--no-color", "NO_COLOR"
	Platform string // "", "linux", "windows-nocross", "all"
	Via      string // "", "search"
}

func (s c17SearchSpec) build(env *cliEnv) (cs c17Case, dbPath string, platforms []string, all, noCross bool, limit int, hasLimit bool) {
	dbPath = filepath.Join(env.Cwd, "db.yml")
	switch {
	case s.DB.Miss:
		os.Remove(dbPath)
	case s.DB.Raw != "":
		os.WriteFile(dbPath, []byte(s.DB.Raw), 0o644)
	default:
		writeYAML(dbPath, s.DB.Cmds)
	}
	var args []string
	if s.Via != "" {
		args = append(args, s.Via)
	}
	args = append(args, "-d", dbPath)
	if s.Limit != "" {
		args = append(args, "--limit="+s.Limit)
		limit, _ = strconv.Atoi(s.Limit)
		hasLimit = true
	}
	if s.Format != "" {
		args = append(args, "--format", s.Format)
	}
	if s.Verbose {
		args = append(args, "-v")
	}
	var envv []string
	switch s.Color {
	case "--no-color":
		args = append(args, "--no-color")
	case "NO_COLOR":
		envv = append(envv, "NO_COLOR=1")
	}
	switch s.Platform {
	case "linux":
		args = append(args, "-p", "linux")
		platforms = []string{"linux"}
	case "bsd":
		// a platform name outside linux / macos / windows: it is what the user asked for, not the host
		args = append(args, "-p", "bsd")
		platforms = []string{"bsd"}
	case "windows-nocross":
		args = append(args, "-p", "windows", "--no-cross-platform")
		platforms, noCross = []string{"windows"}, true
	case "nocross":
		// without --platform the host platform is in force, and cross-platform entries are still excluded
		args = append(args, "--no-cross-platform")
		noCross = true
	case "all":
		args = append(args, "-a")
		all = true
	}
	args = append(args, "--", s.Query)
	return c17Case{Args: qAll(args), DB: s.DB.Name, Query: q(s.Query), Env: envv}, dbPath, platforms, all, noCross, limit, hasLimit
}

func c17Search(c *lib.Ctx, bin string, s c17SearchSpec, prevQuery string) (*lib.Violation, string) {
	env := newCLIEnv(filepath.Join(c.Scratch, "c17b"))
	cs, dbPath, platforms, all, noCross, limit, hasLimit := s.build(env)
	cs.Prev = q(prevQuery)
	// a previous accepted search so that the history has a predecessor
	if prevQuery != "" {
		env.run(bin, nil, "-d", dbPath, "--no-color", "--", prevQuery)
	}
	var before history.SearchHistory
	if b, err := os.ReadFile(env.HistoryPath()); err == nil {
		json.Unmarshal(b, &before)
	}
	r := env.run(bin, cs.Env, cs.argv()...)
	mk := func(key, what string) (*lib.Violation, string) {
		return &lib.Violation{Key: key, What: fmt.Sprintf("wtf %s: %s", strings.Join(cs.Args, " "), what), Case: cs, Observed: truncStr(r.Out, 1500)}, key
	}
	if why := crashed(r); why != "" {
		return mk("search-crash", why)
	}
	ex := c17Engine(dbPath, env.NotebookPath(), s.Query, limit, hasLimit, platforms, all, noCross)
	format := s.Format
	if format == "" {
		format = "list"
	}
	fl := strings.ToLower(format)
	if fl != "json" && fl != "table" {
		fl = "list"
	}
	noColor := s.Color != ""
	if noColor && strings.Contains(r.Out, "\x1b") {
		return mk("colour-leak:"+s.Color+":"+fl, "output contains a terminal escape sequence although colour is disabled")
	}
	if ex.Rejected {
		if strings.Contains(r.Out, "Searching for:") {
			return mk("rejected-but-searched", "the query or limit is invalid, yet a search was performed")
		}
		if _, err := os.Stat(env.HistoryPath()); err == nil && prevQuery == "" {
			return mk("rejected-but-recorded", "an invalid request was recorded in the history")
		}
		return nil, "rejected"
	}
	if !strings.Contains(r.Out, "Searching for: "+ex.Query+"\n") {
		return mk("echo", fmt.Sprintf("the 'Searching for:' line does not show the validated query %q", ex.Query))
	}
	got, jsonOK, nItems, perr := c17Parse(r.Out, fl)
	if perr != "" {
		return mk("json-malformed", perr)
	}
	want := ex.Cmds
	if fl == "table" {
		want = nil
		for _, w := range ex.Cmds {
			want = append(want, tableForm(w))
		}
	}
	max := constants.DefaultMaxResults
	if hasLimit && limit > 0 {
		max = limit
	}
	if len(got) > max {
		return mk("over-limit:"+ex.Stage, fmt.Sprintf("%d entries printed, the limit in force is %d", len(got), max))
	}
	if strings.Join(got, "\x00") != strings.Join(want, "\x00") {
		return mk("output-differs:"+ex.Stage+":"+fl, fmt.Sprintf("printed entries %q, the engine's answer in rank order is %q", got, want))
	}
	if fl == "json" && len(ex.Cmds) > 0 && (!jsonOK || nItems != len(ex.Cmds)) {
		return mk("json-items", fmt.Sprintf("JSON block has %d items for %d results", nItems, len(ex.Cmds)))
	}
	// history
	var after history.SearchHistory
	b, err := os.ReadFile(env.HistoryPath())
	if err != nil || json.Unmarshal(b, &after) != nil {
		return mk("history-unreadable", fmt.Sprintf("search_history.json does not parse after the search (%v)", err))
	}
	n := len(after.Entries)
	if n == 0 || after.Entries[n-1].Query != ex.Query {
		return mk("history-newest", "the newest history entry is not this search")
	}
	wantLen := len(before.Entries) + 1
	if len(before.Entries) > 0 && before.Entries[len(before.Entries)-1].Query == ex.Query {
		wantLen = len(before.Entries)
	}
	if n != wantLen {
		return mk("history-length", fmt.Sprintf("history has %d entries after the search, expected %d", n, wantLen))
	}
	if after.Entries[n-1].ResultsCount != len(ex.Cmds) {
		return mk("history-count", fmt.Sprintf("history records %d results, %d were printed", after.Entries[n-1].ResultsCount, len(ex.Cmds)))
	}
	return nil, ex.Stage + ":" + fl
}

func c17Specs(thorough bool) []c17SearchSpec {
	var out []c17SearchSpec
	for _, db := range c17DBs() {
		limits := []string{"", "0", "1", "3", "100", "101", "-1"}
		formats := []string{"", "table", "json", "JSON", "xml"}
		colors := []string{"", "--no-color", "NO_COLOR"}
		plats := []string{"", "linux", "windows-nocross", "all", "nocross", "bsd"}
		if db.Raw != "" || db.Miss {
			// both end in the built-in fallback list (a damaged file costs 0.3 s of real back-off per run): reduced product
			limits, formats, colors, plats = []string{"", "1", "101"}, []string{"", "json"}, []string{"", "--no-color"}, []string{"", "all"}
		}
		queries := c17Queries
		if db.Name == "linuxonly" {
			// excluded by --platform windows --no-cross-platform: no result, but "did you mean" suggestions
			queries = []string{"frobnicte", "frobnicate widget", "wdgets"}
		}
		for _, qy := range queries {
			for _, lim := range limits {
				for _, f := range formats {
					for _, v := range []bool{false, true} {
						for _, col := range colors {
							for _, pl := range plats {
								out = append(out, c17SearchSpec{DB: db, Query: qy, Limit: lim, Format: f, Verbose: v, Color: col, Platform: pl})
							}
						}
					}
				}
			}
		}
	}
	return out
}

func c17Run(c *lib.Ctx) {
	bin := os.Getenv("VERIF_WTF")
	if bin == "" {
		c.Fail("VERIF_WTF unset: the binary was not built")
		return
	}
	var idx int64
	// (a)
	atoms := c17ArgAtoms()
	depth := 2
	if c.Thorough() {
		depth = 3
	}
	vectors := [][]string{{}}
	for _, s := range uSequences(len(atoms), depth) {
		var v []string
		for _, j := range s {
			v = append(v, atoms[j])
		}
		vectors = append(vectors, v)
	}
	for _, sub := range c17Subcommands {
		for _, v := range vectors {
			idx++
			if !c.Mine(idx) {
				continue
			}
			if idx%64 == int64(c.Shard) && c.Expired() {
				return
			}
			cs := c17Case{Args: qAll(append(append([]string{}, sub...), v...))}
			c.Rep.Evaluations++
			c.Count("subcommand_runs", 1)
			if vio := c17Subcmd(c, bin, cs); vio != nil {
				c.Violate(*vio)
			}
			if len(sub) > 0 && sub[0] == "history" {
				// the history views also from a state in which searches have been recorded
				cs.Hist = true
				c.Rep.Evaluations++
				c.Count("subcommand_runs_with_history", 1)
				if vio := c17Subcmd(c, bin, cs); vio != nil {
					c.Violate(*vio)
				}
			}
		}
	}
	// scripted wizard answers
	for _, wz := range []string{"tar", "find", "ffmpeg", "nosuch"} {
		for _, input := range []string{"", "1\n", "1\nout\n\n\n", "9\n", "x\n", "2\n1\n1\nname\n\n\n\n\n\n", "\n\n\n\n"} {
			idx++
			if !c.Mine(idx) {
				continue
			}
			env := newCLIEnv(filepath.Join(c.Scratch, "c17w"))
			r := env.runWith(bin, nil, []byte(input), "wizard", wz)
			c.Rep.Evaluations++
			c.Count("wizard_runs", 1)
			if why := crashed(r); why != "" {
				c.Violate(lib.Violation{Key: "subcommand-crash:wizard", What: fmt.Sprintf("wtf wizard %s with input %q %s", wz, input, why), Case: c17Case{Args: qAll([]string{"wizard", wz}), Prev: q(input)}})
			}
		}
	}
	// (b)
	specs := c17Specs(c.Thorough())
	for si, s := range specs {
		idx++
		if !c.Mine(idx) {
			continue
		}
		if idx%64 == int64(c.Shard) && c.Expired() {
			return
		}
		prev := ""
		switch si % 3 {
		case 1:
			prev = "files"
		case 2:
			prev = s.Query
		}
		if si%11 == 0 {
			s.Via = "search"
		}
		v, obs := c17Search(c, bin, s, prev)
		c.Rep.Evaluations++
		if v != nil {
			c.Violate(*v)
			continue
		}
		c.Count("search_runs:"+obs, 1)
		if obs != "rejected" && !strings.HasPrefix(obs, "none") {
			c.Rep.Nontrivial++
		}
		if si%4001 == 7 {
			cs, _, _, _, _, _, _ := s.build(newCLIEnv(filepath.Join(c.Scratch, "c17s")))
			c.Sample(map[string]any{"argv": cs.Args, "outcome": obs})
		}
	}
}

func init() {
	lib.Register(&lib.Check{
		ID: "C17", Level: "model_checking",
		Rule:      "(a) every sub-command form {search, root, pipeline, save, save-pipeline, history (+--stats/--top/--clear), alias, alias add/list/remove, setup, wizard, help, --version, --help, completion bash} x every argument vector of <=2 (quick) / <=3 (thorough) atoms from {word, phrase, -x, --, empty string, 1001 bytes, shell metacharacters, number, --limit, tar, --format=json, --limit=-1}, stdin empty, the history forms both with no history and with five recorded searches, + wizard tar/find/ffmpeg/unknown with 7 scripted answer streams: the real binary in an isolated home must finish with exit 0 or 1, without panic, signal or time-out. (b) the FULL product of 3 databases (2 entries + one whose command, description, keyword and category contain '%' and one whose texts are long in bytes but short in characters, 12 equal-scoring entries, 40 entries) [plus a linux-only database with 3 typo queries, for which excluding platform flags leave no result but 'did you mean' suggestions] [and a reduced product - limit {absent,1,101} x format {absent,json} x -v x {colour, --no-color} x {none, -a} - for a damaged and a missing database file, which both end in the built-in list] x 10 queries (lexical, NLP-only, typo-fallback, recovery-only, no hit, metacharacter, 1001 bytes, case/white-space variant ...) x --limit {absent,0,1,3,100,101,-1} x --format {absent,table,json,JSON,xml} x -v x {colour, --no-color, NO_COLOR} x platform flags {none, -p linux, -p windows --no-cross-platform, -a, --no-cross-platform alone, -p bsd (a name outside the usual three; the linux-only database also has a bsd entry)} = 37,800 + 960 runs of the real binary (+ a preceding run for two thirds of them), each compared with the engine driven in-process through the same exported functions with the options the CLI constructs: same entries in the same order, count <= limit in force, JSON block parses with one object per result, no ESC byte when colour is off, history file parses with this query newest and the right length and result count; rejected requests neither search nor record. non-trivial = searches that print results",
		Assume:    []string{"isolated HOME / XDG_CONFIG_HOME and an empty working directory (context = generic, no boosts)", "printed commands are single-line (test databases)", "the in-process engine runs with map order pinned; the binary with the runtime's order (equal by C02)"},
		QuickSecs: 400, ThorSecs: 1800,
		Run: c17Run,
		Replay: func(c *lib.Ctx, raw json.RawMessage) []lib.Violation {
			bin := os.Getenv("VERIF_WTF")
			var cs c17Case
			if bin == "" || json.Unmarshal(raw, &cs) != nil {
				return nil
			}
			if cs.DB == "" {
				if v := c17Subcmd(c, bin, cs); v != nil {
					return []lib.Violation{*v}
				}
				return nil
			}
			// rebuild the spec from the recorded argv
			for _, s := range c17Specs(true) {
				for _, via := range []string{"", "search"} {
					s.Via = via
					got, _, _, _, _, _, _ := s.build(newCLIEnv(filepath.Join(c.Scratch, "c17r")))
					if s.DB.Name == cs.DB && len(got.Args) == len(cs.Args) && strings.Join(got.Args[len(got.Args)-1:], "") == strings.Join(cs.Args[len(cs.Args)-1:], "") &&
						argsEqualIgnoringPath(got.Args, cs.Args) && strings.Join(got.Env, ",") == strings.Join(cs.Env, ",") {
						if v, _ := c17Search(c, bin, s, uq(cs.Prev)); v != nil {
							return []lib.Violation{*v}
						}
						return nil
					}
				}
			}
			return nil
		},
		Finish: func(m *lib.Report, tier string) string {
			if !m.Exhaustive {
				return ""
			}
			need := []string{"subcommand_runs", "wizard_runs", "search_runs:engine:list", "search_runs:engine:json", "search_runs:engine:table", "search_runs:recovery:list", "search_runs:none:list", "search_runs:rejected"}
			for _, k := range need {
				if m.Counters[k] == 0 {
					return "vacuous: counter " + k + " is zero"
				}
			}
			return ""
		},
	})
}

func argsEqualIgnoringPath(a, b []string) bool {
	if len(a) != len(b) {
		return false
	}
	for i := range a {
		if a[i] != b[i] && !(strings.Contains(a[i], "db.yml") && strings.Contains(b[i], "db.yml")) {
			return false
		}
	}
	return true
}

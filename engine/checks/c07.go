package checks

import (
	"math"
	"encoding/json"
	"fmt"
	"strconv"
	"unicode"
	"unicode/utf8"

	"github.com/sahilm/fuzzy"

	"github.com/Vedant9500/WTF/internal/database"
	"github.com/Vedant9500/WTF/internal/zzvrt/vhost"
	"github.com/Vedant9500/WTF/zzverif/lib"
)

// C07 — the typo fallback runs only when nothing matches lexically and returns
// genuine matches.  Engine E2: (database, query) universe x thresholds x NLP
// on/off, fuzzy off vs on.

var c07Thresholds = []int{0, -30, -5, 15, 1000, -1000}

var c07Queries = []string{
	"comprss", "cmprs", "fils", "gt", "g", "c", "z", "qz", "Qzx R", "zip out", "tr czf", "lst fls", "..", "-", "?", " ", "- -", "dr", "dir",
	"gitt", "commt", "stts", "ls -la", "LS", "échó", "caf", "é", "xyzzy", "compress", "files", "git status", "the", "a", "mk dr", "find txt",
	"recrd", "rcrd chngs", "sort", "srt dta", "x", "e", "o z", "t g",
}

type c07Case struct {
	DB    dbSpec `json:"db"`
	Query string `json:"query_quoted"`
	Opts  Opts   `json:"options"` // UseFuzzy is toggled by the check
	Host  string `json:"host"`
}

func foldEq(a, b rune) bool {
	if a == b {
		return true
	}
	for r := unicode.SimpleFold(a); r != a; r = unicode.SimpleFold(r) {
		if r == b {
			return true
		}
	}
	return false
}

// isSubsequence: the runes of q occur in order in text, ignoring case.
func isSubsequence(q, text string) bool {
	qr := []rune(q)
	i := 0
	for _, r := range text {
		if i < len(qr) && foldEq(qr[i], r) {
			i++
		}
	}
	return i == len(qr)
}

func fuzzyQuality(q, text string) (int, bool) {
	var ms fuzzy.Matches
	func() {
		defer func() { recover() }()
		ms = fuzzy.Find(q, []string{text})
	}()
	if len(ms) == 0 {
		return 0, false
	}
	return ms[0].Score, true
}

func c07Eval(db *database.Database, cs c07Case) (*lib.Violation, string) {
	vhost.Set(cs.Host)
	q, _ := strconv.Unquote(cs.Query)
	off, on := cs.Opts, cs.Opts
	off.UseFuzzy, on.UseFuzzy = false, true
	var offI, onI []resItem
	var pv any
	func() {
		defer func() { pv = recover() }()
		offI = uItems(db, db.SearchUniversal(q, off))
		onI = uItems(db, db.SearchUniversal(q, on))
	}()
	if pv != nil {
		return &lib.Violation{Key: "panic", What: fmt.Sprintf("search panicked: %v", pv), Case: cs}, "panic"
	}
	obs := uDigest(offI) + "|" + uDigest(onI)
	if len(offI) > 0 {
		if uDigest(offI) != uDigest(onI) {
			return &lib.Violation{Key: "fallback-changed-answer", What: fmt.Sprintf("query %s has a lexical answer, but enabling typo tolerance changed it", cs.Query), Case: cs, Observed: onI, Expected: offI}, obs
		}
		return nil, obs
	}
	text := func(i int) string { return db.Commands[i].Command + " " + db.Commands[i].Description }
	prevQ := 0
	for k, it := range onI {
		if it.Idx < 0 {
			return &lib.Violation{Key: "foreign-entry", What: "fallback result is not an entry of the database", Case: cs, Observed: onI}, obs
		}
		t := text(it.Idx)
		if utf8.ValidString(q) && !isSubsequence(q, t) {
			return &lib.Violation{Key: "not-a-match", What: fmt.Sprintf("fallback returned %q whose text does not contain the characters of %s in order", db.Commands[it.Idx].Command, cs.Query), Case: cs, Observed: onI}, obs
		}
		ql, ok := fuzzyQuality(q, t)
		if !ok {
			return &lib.Violation{Key: "not-a-match", What: fmt.Sprintf("fallback returned %q, which the matcher does not match against %s", db.Commands[it.Idx].Command, cs.Query), Case: cs, Observed: onI}, obs
		}
		if on.FuzzyThreshold != 0 && ql < on.FuzzyThreshold {
			return &lib.Violation{Key: fmt.Sprintf("below-threshold:%s", signOf(on.FuzzyThreshold)), What: fmt.Sprintf("fallback returned %q with match quality %d below the requested threshold %d", db.Commands[it.Idx].Command, ql, on.FuzzyThreshold), Case: cs, Observed: onI}, obs
		}
		if k > 0 && ql > prevQ {
			return &lib.Violation{Key: "quality-order", What: fmt.Sprintf("fallback results not ordered best match first (quality %d after %d)", ql, prevQ), Case: cs, Observed: onI}, obs
		}
		prevQ = ql
		if !refEligible(&db.Commands[it.Idx], on, cs.Host) || (on.PipelineOnly && !refIsPipeline(&db.Commands[it.Idx])) {
			return &lib.Violation{Key: "ineligible", What: fmt.Sprintf("fallback returned %q, which the platform / pipeline filters exclude", db.Commands[it.Idx].Command), Case: cs, Observed: onI}, obs
		}
	}
	if on.FuzzyThreshold == 0 && len(onI) == 0 && q != "" && utf8.ValidString(q) {
		for i := range db.Commands {
			e := &db.Commands[i]
			if refEligible(e, on, cs.Host) && (!on.PipelineOnly || refIsPipeline(e)) && isSubsequence(q, text(i)) {
				return &lib.Violation{Key: "fallback-incomplete", What: fmt.Sprintf("the characters of %s occur in order in eligible entry %q, no threshold is set, yet the search returns nothing", cs.Query, e.Command), Case: cs}, obs
			}
		}
	}
	return nil, obs
}

func signOf(t int) string {
	if t < 0 {
		return "negative"
	}
	return "positive"
}

func c07DBs(thorough bool) []dbSpec {
	k := 2
	if thorough {
		k = 3
	}
	sub := []int{0, 2, 3, 4, 5, 6, 7, 8, 9, 14, 17, 19, 20, 21, 22, 24, 25}
	var out []dbSpec
	for _, s := range uSubsets(len(sub), k) {
		idx := make([]int, len(s))
		for i, j := range s {
			idx[i] = sub[j]
		}
		out = append(out, dbSpec{Pool: idx})
	}
	out = append(out, dbSpec{Special: "empty"}, dbSpec{Special: "identical12"}, dbSpec{Special: "forty"})
	return out
}

func c07Run(c *lib.Ctx) {
	defer vhost.Set("")
	qs := append([]string{}, c07Queries...)
	qs = append(qs, uQueries(uWords, 1)...)
	var idx int64
	selfCheck := 0
	for di, spec := range c07DBs(c.Thorough()) {
		if !c.Mine(int64(di)) {
			continue
		}
		if c.Expired() {
			return
		}
		db := spec.build(c)
		n := len(db.Commands)
		for _, q := range qs {
			qq := strconv.Quote(q)
			for _, thr := range c07Thresholds {
				for bits := 0; bits < 8; bits++ {
					lims := []int{1, n + 3}
					if bits < 2 {
						// "any limit": the fallback must answer the same for limits near the int range
						lims = append(lims, math.MaxInt, math.MaxInt/2+1)
					}
					for _, lim := range lims {
						o := Opts{Limit: lim, FuzzyThreshold: thr, UseNLP: bits&1 != 0, AllPlatforms: bits&2 != 0, PipelineOnly: bits&4 != 0}
						host := "linux"
						if bits&2 == 0 && idx%3 == 1 {
							host = "windows"
						}
						cs := c07Case{DB: spec, Query: qq, Opts: o, Host: host}
						v, obs := c07Eval(db, cs)
						c.Rep.Evaluations += 2
						idx++
						if selfCheck < 64 {
							selfCheck++
							if _, o2 := c07Eval(db, cs); o2 != obs {
								c.Fail("harness nondeterminism on %+v", cs)
							}
						}
						if v != nil {
							c.Violate(*v)
							continue
						}
						switch {
						case obs == "|":
							c.Count("no_answer_either_way", 1)
						case obs[0] == '|':
							c.Count("fallback_answered", 1)
							c.Count(fmt.Sprintf("fallback_answered:thr=%d", thr), 1)
							c.Rep.Nontrivial++
						default:
							c.Count("lexical_answer_kept", 1)
							c.Rep.Nontrivial++
						}
						if idx%50000 == 13 {
							c.Sample(map[string]any{"case": cs, "observed": obs})
						}
					}
				}
			}
		}
	}
}

func init() {
	lib.Register(&lib.Check{
		ID: "C07", Level: "model_checking",
		Rule:      "full product of: databases = all subsets of <=2 (quick) / <=3 (thorough) of 17 pool entries + empty, 12-identical, 40-entry; 63 queries (misspellings, fragments, one letter, punctuation, blanks, non-ASCII, exact words); thresholds {0,-30,-5,15,1000,-1000}; NLP x all-platforms x pipeline-only; limits {1, N+3}; host linux/windows; each as a pair (UseFuzzy off, on). Oracle: identity when the lexical answer is non-empty; otherwise every result is a case-insensitive subsequence match (own matcher) with library match quality >= any non-zero threshold, quality-descending, filter-eligible, and a non-empty answer whenever some eligible text contains the query as a subsequence and no threshold is set. evaluations = searches; non-trivial = pairs with a non-empty answer",
		Assume:    []string{"match quality is defined by github.com/sahilm/fuzzy (recomputed on the single text)", "threshold 0 means no threshold", "case-insensitivity = unicode.SimpleFold orbits", "map order pinned"},
		QuickSecs: 150, ThorSecs: 1200,
		Run: c07Run,
		Replay: func(c *lib.Ctx, raw json.RawMessage) []lib.Violation {
			defer vhost.Set("")
			var cs c07Case
			if json.Unmarshal(raw, &cs) != nil {
				return nil
			}
			if v, _ := c07Eval(cs.DB.build(c), cs); v != nil {
				return []lib.Violation{*v}
			}
			return nil
		},
		Finish: func(m *lib.Report, tier string) string {
			if !m.Exhaustive {
				return ""
			}
			for _, k := range []string{"fallback_answered", "lexical_answer_kept", "no_answer_either_way", "fallback_answered:thr=-30", "fallback_answered:thr=0"} {
				if m.Counters[k] == 0 {
					return "vacuous: counter " + k + " is zero"
				}
			}
			return ""
		},
	})
}

package checks

import (
	"bytes"
	"encoding/json"
	"fmt"
	"os"
	"os/exec"
	"sort"
	"strconv"
	"strings"
	"sync"
	"time"

	"github.com/anishathalye/porcupine"

	"github.com/Vedant9500/WTF/internal/cache"
	"github.com/Vedant9500/WTF/internal/constants"
	"github.com/Vedant9500/WTF/internal/database"
	"github.com/Vedant9500/WTF/internal/metrics"
	"github.com/Vedant9500/WTF/internal/recovery"
	"github.com/Vedant9500/WTF/internal/zzvrt/vatomic"
	"github.com/Vedant9500/WTF/internal/zzvrt/vhost"
	"github.com/Vedant9500/WTF/internal/zzvrt/vsync"
	"github.com/Vedant9500/WTF/internal/zzvrt/vtime"
	"github.com/Vedant9500/WTF/zzverif/lib"
)

// C11 — concurrent searches are race-free and answer as if alone.
// Engine E3: every interleaving of 2-3 threads x 1-3 operations with at most
// b preemptions (b=3 quick, 4 thorough) at every lock / atomic operation of
// the real code (vsync / vatomic shims under the cooperative scheduler), per
// execution: sequential answers, linearizability of the recorded LRU history
// (porcupine), counter totals. Beside it: a free-running -race pass of the
// same bodies (dynamic analysis, reported separately).

// ---------------------------------------------------------------- LRU model for porcupine

type lruIn struct {
	Op  string // put get del size stats adv sweep
	Key string
	Val int
	Adv int64
}

type lruOut struct {
	Found bool
	Val   int
	N     int
	Stats [4]int64 // hits misses evictions size
}

type lruMEnt struct {
	key     string
	val     int
	created int64
}

type lruMState struct {
	cap                     int
	ttl                     int64
	now                     int64
	ents                    []lruMEnt // 0 = most recent
	hits, misses, evictions int64
}

func (s lruMState) clone() lruMState {
	s.ents = append([]lruMEnt{}, s.ents...)
	return s
}

func lruModelStep(st lruMState, in lruIn) (lruMState, lruOut) {
	s := st.clone()
	find := func(k string) int {
		for i := range s.ents {
			if s.ents[i].key == k {
				return i
			}
		}
		return -1
	}
	front := func(i int) {
		e := s.ents[i]
		copy(s.ents[1:i+1], s.ents[:i])
		s.ents[0] = e
	}
	var out lruOut
	switch in.Op {
	case "put":
		if i := find(in.Key); i >= 0 {
			s.ents[i].val = in.Val
			front(i)
		} else {
			s.ents = append([]lruMEnt{{in.Key, in.Val, s.now}}, s.ents...)
			if len(s.ents) > s.cap {
				s.ents = s.ents[:len(s.ents)-1]
				s.evictions++
			}
		}
	case "get":
		i := find(in.Key)
		switch {
		case i < 0:
			s.misses++
		case s.ttl > 0 && s.now-s.ents[i].created > s.ttl:
			s.ents = append(s.ents[:i], s.ents[i+1:]...)
			s.misses++
		default:
			out.Found, out.Val = true, s.ents[i].val
			front(i)
			s.hits++
		}
	case "del":
		if i := find(in.Key); i >= 0 {
			s.ents = append(s.ents[:i], s.ents[i+1:]...)
			out.Found = true
		}
	case "size":
		out.N = len(s.ents)
	case "stats":
		out.Stats = [4]int64{s.hits, s.misses, s.evictions, int64(len(s.ents))}
	case "adv":
		s.now += in.Adv
	case "sweep":
		if s.ttl > 0 {
			for len(s.ents) > 0 && s.now-s.ents[len(s.ents)-1].created > s.ttl {
				s.ents = s.ents[:len(s.ents)-1]
				out.N++
			}
		}
	}
	return s, out
}

func lruPorcupineModel(init lruMState) porcupine.Model {
	return porcupine.Model{
		Init: func() interface{} { return init.clone() },
		Step: func(state, input, output interface{}) (bool, interface{}) {
			ns, want := lruModelStep(state.(lruMState), input.(lruIn))
			return want == output.(lruOut), ns
		},
		Equal: func(a, b interface{}) bool {
			x, y := a.(lruMState), b.(lruMState)
			if x.now != y.now || x.hits != y.hits || x.misses != y.misses || x.evictions != y.evictions || len(x.ents) != len(y.ents) {
				return false
			}
			for i := range x.ents {
				if x.ents[i] != y.ents[i] {
					return false
				}
			}
			return true
		},
		DescribeOperation: func(in, out interface{}) string { return fmt.Sprintf("%+v -> %+v", in, out) },
	}
}

// recorder collects a call/return history under the cooperative scheduler
// (one thread runs at a time, so the logical clock needs no lock there); the
// free-running race pass uses it through a mutex.
type recorder struct {
	mu    sync.Mutex
	clock int64
	ops   []porcupine.Operation
}

func (r *recorder) call() int64 {
	r.mu.Lock()
	defer r.mu.Unlock()
	r.clock++
	return r.clock
}

func (r *recorder) ret(client int, in, out interface{}, call int64) {
	r.mu.Lock()
	defer r.mu.Unlock()
	r.clock++
	r.ops = append(r.ops, porcupine.Operation{ClientId: client, Input: in, Call: call, Output: out, Return: r.clock})
}

const c11Tick = int64(time.Millisecond)

func lruDo(c *cache.LRUCache, rec *recorder, client int, in lruIn) {
	t := rec.call()
	var out lruOut
	switch in.Op {
	case "put":
		c.Put(in.Key, in.Val)
	case "get":
		v, ok := c.Get(in.Key)
		out.Found = ok
		if ok {
			out.Val, _ = v.(int)
		}
	case "del":
		out.Found = c.Delete(in.Key)
	case "size":
		out.N = c.Size()
	case "stats":
		st := c.Stats()
		out.Stats = [4]int64{st.Hits, st.Misses, st.Evictions, int64(st.Size)}
	case "adv":
		vtime.Advance(time.Duration(in.Adv * c11Tick))
	case "sweep":
		out.N = c.CleanupExpired()
	}
	rec.ret(client, in, out, t)
}

// ---------------------------------------------------------------- scenarios

// a scenario builds fresh objects and returns thread bodies plus a final
// check producing (violation text, observation digest).
type c11Scenario struct {
	Name  string
	Build func(w *c11World) (threads []func(), final func() (bad string, obs string))
}

// c11FreeOracle: scenarios whose final oracle only reads what the threads stored in their own slots; it is also
// evaluated after every repetition of the free-running pass (a wrong answer there is a real execution)
var c11FreeOracle = map[string]bool{"S13-same-query-different-filters": true}

type c11World struct {
	db    *database.Database
	solo  map[string]string
	cmds  []Cmd
	fresh func() *database.Database
}

func (w *c11World) soloAnswer(q string, o Opts) string {
	k := q + "|" + uOptsString(o)
	if d, ok := w.solo[k]; ok {
		return d
	}
	d := uDigest(uItems(w.db, w.db.SearchUniversal(q, o)))
	w.solo[k] = d
	return d
}

func c11Scenarios() []c11Scenario {
	optN := Opts{Limit: 3, UseNLP: true}
	opt0 := Opts{Limit: 2}
	return []c11Scenario{
		{"S1-lru-cap2", func(w *c11World) ([]func(), func() (string, string)) {
			c := cache.NewLRUCache(2, 0)
			rec := &recorder{}
			init := lruMState{cap: 2}
			th := []func(){
				func() {
					lruDo(c, rec, 0, lruIn{Op: "put", Key: "a", Val: 1})
					lruDo(c, rec, 0, lruIn{Op: "get", Key: "b"})
				},
				func() {
					lruDo(c, rec, 1, lruIn{Op: "put", Key: "b", Val: 2})
					lruDo(c, rec, 1, lruIn{Op: "get", Key: "a"})
				},
				func() {
					lruDo(c, rec, 2, lruIn{Op: "put", Key: "c", Val: 3})
					lruDo(c, rec, 2, lruIn{Op: "size"})
					lruDo(c, rec, 2, lruIn{Op: "stats"})
				},
			}
			return th, func() (string, string) { return lruFinal(rec, init) }
		}},
		{"S10-lru-same-key", func(w *c11World) ([]func(), func() (string, string)) {
			c := cache.NewLRUCache(2, 0)
			rec := &recorder{}
			init := lruMState{cap: 2}
			th := []func(){
				func() {
					lruDo(c, rec, 0, lruIn{Op: "put", Key: "a", Val: 1})
					lruDo(c, rec, 0, lruIn{Op: "get", Key: "a"})
				},
				func() { lruDo(c, rec, 1, lruIn{Op: "put", Key: "a", Val: 2}); lruDo(c, rec, 1, lruIn{Op: "size"}) },
				func() {
					lruDo(c, rec, 2, lruIn{Op: "put", Key: "b", Val: 3})
					lruDo(c, rec, 2, lruIn{Op: "get", Key: "a"})
					lruDo(c, rec, 2, lruIn{Op: "stats"})
				},
			}
			return th, func() (string, string) { return lruFinal(rec, init) }
		}},
		{"S2-lru-ttl", func(w *c11World) ([]func(), func() (string, string)) {
			vtime.Enable()
			c := cache.NewLRUCache(2, time.Duration(10*c11Tick))
			c.Put("a", 7) // pre-state: a stored at time 0
			rec := &recorder{}
			init := lruMState{cap: 2, ttl: 10, ents: []lruMEnt{{"a", 7, 0}}}
			th := []func(){
				func() { lruDo(c, rec, 0, lruIn{Op: "get", Key: "a"}); lruDo(c, rec, 0, lruIn{Op: "get", Key: "a"}) },
				func() {
					lruDo(c, rec, 1, lruIn{Op: "del", Key: "a"})
					lruDo(c, rec, 1, lruIn{Op: "put", Key: "a", Val: 8})
				},
				func() {
					lruDo(c, rec, 2, lruIn{Op: "adv", Adv: 11})
					lruDo(c, rec, 2, lruIn{Op: "sweep"})
					lruDo(c, rec, 2, lruIn{Op: "stats"})
				},
			}
			return th, func() (string, string) { defer vtime.Disable(); return lruFinal(rec, init) }
		}},
		{"S3-cached-database", func(w *c11World) ([]func(), func() (string, string)) {
			cdb := database.NewCachedDatabase(w.db)
			var res [5]string
			th := []func(){
				func() {
					res[0] = uDigest(uItems(w.db, cdb.SearchWithOptionsAndCache("git files", optN)))
					res[1] = uDigest(uItems(w.db, cdb.SearchWithOptionsAndCache("git files", optN)))
				},
				func() {
					res[2] = uDigest(uItems(w.db, cdb.SearchWithOptionsAndCache("git files", optN)))
					cdb.InvalidateCache()
				},
				func() {
					cdb.CleanupExpiredCache()
					st := cdb.GetCacheStats()
					res[3] = fmt.Sprint(st["search"].Size <= 1)
					res[4] = uDigest(uItems(w.db, cdb.SearchWithOptionsAndCache("tar", opt0)))
				},
			}
			return th, func() (string, string) {
				want := w.soloAnswer("git files", optN)
				for i := 0; i < 3; i++ {
					if res[i] != want {
						return fmt.Sprintf("cached search %d returned %s, alone it returns %s", i, res[i], want), strings.Join(res[:], "/")
					}
				}
				if res[4] != w.soloAnswer("tar", opt0) {
					return "cached search for 'tar' differs from its solo answer", strings.Join(res[:], "/")
				}
				if res[3] != "true" {
					return "cache holds more than the one entry ever stored", strings.Join(res[:], "/")
				}
				st := cdb.GetCacheStats()["search"]
				return "", fmt.Sprintf("%s h=%d m=%d size=%d", strings.Join(res[:], "/"), st.Hits, st.Misses, st.Size)
			}
		}},
		{"S11-cached-database-expiry", func(w *c11World) ([]func(), func() (string, string)) {
			// entries age past the cache lifetime while searches, sweeps and statistics run
			vtime.Enable()
			cdb := database.NewCachedDatabase(w.db)
			cdb.SearchWithOptionsAndCache("git files", optN) // cached at time 0
			var res [3]string
			var swept map[string]int
			th := []func(){
				func() {
					res[0] = uDigest(uItems(w.db, cdb.SearchWithOptionsAndCache("git files", optN)))
					res[1] = uDigest(uItems(w.db, cdb.SearchWithOptionsAndCache("git files", optN)))
				},
				func() {
					vtime.Advance(constants.DefaultCacheTTL + time.Second)
					swept = cdb.CleanupExpiredCache()
				},
				func() {
					res[2] = uDigest(uItems(w.db, cdb.SearchWithOptionsAndCache("tar", opt0)))
					cdb.GetCacheStats()
					cdb.InvalidateCache()
				},
			}
			return th, func() (string, string) {
				defer vtime.Disable()
				want := w.soloAnswer("git files", optN)
				if res[0] != want || res[1] != want || res[2] != w.soloAnswer("tar", opt0) {
					return "a cached search differs from its solo answer while entries expire", strings.Join(res[:], "/")
				}
				if swept["search"] < 0 || swept["search"] > 2 {
					return fmt.Sprintf("sweep removed %d entries, at most 2 ever existed", swept["search"]), ""
				}
				st := cdb.GetCacheStats()["search"]
				return "", fmt.Sprintf("%s swept=%d size=%d", strings.Join(res[:], "/"), swept["search"], st.Size)
			}
		}},
		{"S4-monitored-database", func(w *c11World) ([]func(), func() (string, string)) {
			mdb := database.NewMonitoredDatabase(w.db)
			var res [3]string
			var rep metrics.PerformanceReport
			th := []func(){
				func() { res[0] = uDigest(uItems(w.db, mdb.SearchWithOptionsAndMonitoring("git files", optN))) },
				func() { res[1] = uDigest(uItems(w.db, mdb.SearchWithOptionsAndMonitoring("git files", optN))) },
				func() {
					res[2] = uDigest(uItems(w.db, mdb.SearchWithOptionsAndMonitoring("tar", opt0)))
					rep = mdb.GetPerformanceReport()
				},
			}
			_ = rep
			return th, func() (string, string) {
				if res[0] != w.soloAnswer("git files", optN) || res[1] != res[0] || res[2] != w.soloAnswer("tar", opt0) {
					return "a monitored search differs from its solo answer", strings.Join(res[:], "/")
				}
				var total, hm float64
				series := map[string]int{}
				for _, m := range mdb.GetPerformanceReport().ApplicationMetrics {
					switch m.Name {
					case "searches_total":
						total += m.Value
						series[tagString(m.Tags)]++
					case "cache_hits_total", "cache_misses_total":
						hm += m.Value
					}
				}
				if total != 3 || hm != 3 {
					return fmt.Sprintf("3 monitored searches were made; searches_total=%v, hits+misses=%v (an increment was lost or a series duplicated)", total, hm), strings.Join(res[:], "/")
				}
				for k, n := range series {
					if n != 1 {
						return fmt.Sprintf("%d series for searches_total{%s}", n, k), ""
					}
				}
				return "", fmt.Sprintf("%s total=%v", strings.Join(res[:], "/"), total)
			}
		}},
		{"S5-collector-new-series", func(w *c11World) ([]func(), func() (string, string)) {
			col := metrics.NewCollector()
			tags := func() map[string]string { return map[string]string{"a": "1", "b": "2"} }
			var p [2]*metrics.Counter
			var seen int
			th := []func(){
				func() { p[0] = col.Counter("n", tags()); p[0].Inc() },
				func() { p[1] = col.Counter("n", tags()); p[1].Inc() },
				func() {
					col.Histogram("h", nil).Observe(1)
					for _, m := range col.GetAllMetrics() {
						if m.Name == "n" {
							seen++
						}
					}
				},
			}
			return th, func() (string, string) {
				if p[0] != p[1] {
					return "two goroutines creating the same new series received different counters", ""
				}
				if v := col.Counter("n", tags()).Value(); v != 2 {
					return fmt.Sprintf("two increments were applied, the counter reads %d", v), ""
				}
				if col.Histogram("h", nil).Count() != 1 {
					return "histogram lost its observation", ""
				}
				if seen > 1 {
					return fmt.Sprintf("GetAllMetrics listed %d series for one identity", seen), ""
				}
				return "", fmt.Sprintf("seen=%d", seen)
			}
		}},
		{"S6-direct-searches", func(w *c11World) ([]func(), func() (string, string)) {
			var res [3]string
			th := []func(){
				func() { res[0] = uDigest(uItems(w.db, w.db.SearchUniversal("git files", optN))) },
				func() { res[1] = uDigest(uItems(w.db, w.db.SearchUniversal("git files", optN))) },
				func() {
					res[2] = uDigest(uItems(w.db, w.db.SearchUniversal("comprss", Opts{Limit: 2, UseFuzzy: true})))
				},
			}
			return th, func() (string, string) {
				if res[0] != w.soloAnswer("git files", optN) || res[1] != res[0] || res[2] != w.soloAnswer("comprss", Opts{Limit: 2, UseFuzzy: true}) {
					return "a concurrent direct search differs from its solo answer", strings.Join(res[:], "/")
				}
				return "", strings.Join(res[:], "/")
			}
		}},
		{"S7-first-searches-on-fallback-database", func(w *c11World) ([]func(), func() (string, string)) {
			var fdb *database.Database
			func() {
				old := os.Stdout
				if dn, err := os.OpenFile(os.DevNull, os.O_WRONLY, 0); err == nil {
					os.Stdout = dn
					defer func() { os.Stdout = old; dn.Close() }()
				}
				fdb, _ = recovery.NewDatabaseRecovery(recovery.RetryConfig{MaxAttempts: 1}).LoadDatabaseWithFallback("/nonexistent/verif/main.yml", "/nonexistent/verif/personal.yml")
			}()
			var res [3]string
			q := func(i int, s string) func() {
				return func() {
					if fdb != nil {
						res[i] = uDigest(uItems(fdb, fdb.SearchUniversal(s, Opts{Limit: 3, AllPlatforms: true})))
					}
				}
			}
			th := []func(){q(0, "list files"), q(1, "list files"), q(2, "copy")}
			return th, func() (string, string) {
				if fdb == nil {
					return "no fallback database", ""
				}
				a := uDigest(uItems(fdb, fdb.SearchUniversal("list files", Opts{Limit: 3, AllPlatforms: true})))
				if res[0] != a || res[1] != a {
					return "first concurrent searches on the loader's fallback database differ from the solo answer", strings.Join(res[:], "/")
				}
				return "", strings.Join(res[:], "/")
			}
		}},
		{"S8-search-cache-invalidate-pattern", func(w *c11World) ([]func(), func() (string, string)) {
			sc := cache.NewSearchCache(4, 0)
			co := cache.SearchOptions{Limit: 3}
			val := []cache.SearchResult{{Command: "x", Score: 1}, {Command: "y", Score: 0.5}}
			sc.Put("other", co, val[:1])
			var got [2]string
			rd := func(i int) {
				r, ok := sc.Get("q", co)
				got[i] = fmt.Sprint(ok, len(r))
				if ok && (len(r) != 2 || r[0].Command != "x" || r[1].Command != "y") {
					got[i] = "CORRUPT"
				}
			}
			var removed int
			th := []func(){
				func() { sc.Put("q", co, val); rd(0) },
				func() { removed = sc.InvalidatePattern("search:") },
				func() { rd(1); sc.Stats(); sc.Size() },
			}
			return th, func() (string, string) {
				for i := range got {
					if got[i] == "CORRUPT" {
						return "a cached result list came back altered", strings.Join(got[:], "/")
					}
				}
				if sc.Size() > 2 || removed > 2 {
					return fmt.Sprintf("cache size %d / removed %d impossible with two stored entries", sc.Size(), removed), ""
				}
				return "", fmt.Sprintf("%s removed=%d size=%d", strings.Join(got[:], "/"), removed, sc.Size())
			}
		}},
		{"S9-counter-increments", func(w *c11World) ([]func(), func() (string, string)) {
			col := metrics.NewCollector()
			inc := func() { c := col.Counter("hits", nil); c.Inc(); c.Inc() }
			g := col.Gauge("g", nil)
			th := []func(){inc, inc, func() { col.Counter("hits", nil).Add(3); g.Inc(); g.Dec(); g.Inc() }}
			return th, func() (string, string) {
				if v := col.Counter("hits", nil).Value(); v != 7 {
					return fmt.Sprintf("increments totalling 7 were applied, the counter reads %d (lost update)", v), ""
				}
				if g.Value() != 1 {
					return fmt.Sprintf("gauge reads %v after +1 -1 +1", g.Value()), ""
				}
				return "", "7"
			}
		}},
		{"S13-same-query-different-filters", func(w *c11World) ([]func(), func() (string, string)) {
			// the same query text asked at the same time with different platform lists / context boosts, all
			// callers sharing one boosts map (as one process with one project context does)
			cdb := database.NewMonitoredDatabase(w.db)
			shared := map[string]float64{"files": 1.5}
			oL := Opts{Limit: 3, UseNLP: true, Platforms: []string{"linux"}, ContextBoosts: shared}
			oW := Opts{Limit: 3, UseNLP: true, Platforms: []string{"windows"}, ContextBoosts: shared}
			oB := Opts{Limit: 3, UseNLP: true, Platforms: []string{"linux"}, ContextBoosts: map[string]float64{"files": 1.5, "git": 4}}
			var res [4]string
			th := []func(){
				func() { res[0] = uDigest(uItems(w.db, cdb.SearchWithOptionsAndCache("git files", oL))) },
				func() { res[1] = uDigest(uItems(w.db, cdb.SearchWithOptionsAndMonitoring("GIT files", oW))) },
				func() {
					res[2] = uDigest(uItems(w.db, cdb.SearchWithOptionsAndCache("git files", oB)))
					res[3] = uDigest(uItems(w.db, w.db.SearchUniversal("find files", oL)))
				},
			}
			return th, func() (string, string) {
				fresh := func(o Opts) Opts {
					cp := map[string]float64{}
					for k, v := range o.ContextBoosts {
						cp[k] = v
					}
					o.ContextBoosts = cp
					return o
				}
				obs := strings.Join(res[:], "/")
				if len(shared) != 1 || shared["files"] != 1.5 {
					return fmt.Sprintf("the caller's context-boost map was modified by the searches: %v", shared), obs
				}
				for i, c := range []struct {
					q string
					o Opts
				}{{"git files", oL}, {"GIT files", oW}, {"git files", oB}, {"find files", oL}} {
					if want := w.soloAnswer(c.q, fresh(c.o)); res[i] != want {
						return fmt.Sprintf("search %d (%q, platforms %v, boosts %v) returned %s, alone it returns %s", i, c.q, c.o.Platforms, c.o.ContextBoosts, res[i], want), obs
					}
				}
				return "", obs
			}
		}},
		{"S12-histogram-observations", func(w *c11World) ([]func(), func() (string, string)) {
			col := metrics.NewCollector()
			h := col.Histogram("lat", nil)
			tm := col.Timer("t", nil)
			var mid [2]float64
			var midN int64
			th := []func(){
				func() { h.Observe(0.5); h.Observe(20000); tm.TimeFunc(func() {}) },
				func() { h.Observe(2); h.Observe(0.25); tm.TimeFunc(func() {}) },
				func() {
					col.Histogram("lat", nil).Observe(64)
					midN = h.Count()
					mid[0] = h.Sum()
					mid[1] = h.Percentile(100)
				},
			}
			return th, func() (string, string) {
				// every value is a binary fraction: the sum is exact in any order
				if h.Count() != 5 || h.Sum() != 20066.75 {
					return fmt.Sprintf("5 observations totalling 20066.75 were made; the histogram reports %d totalling %v (lost update)", h.Count(), h.Sum()), ""
				}
				if m := h.Mean(); m != 20066.75/5 {
					return fmt.Sprintf("histogram mean %v, exact %v", m, 20066.75/5), ""
				}
				if n := tm.Histogram().Count(); n != 2 {
					return fmt.Sprintf("2 durations were recorded, the timer reports %d", n), ""
				}
				if midN < 1 || midN > 5 || mid[0] < 64 || mid[0] > 20066.75 {
					return fmt.Sprintf("a reader saw %d observations totalling %v while 1..5 totalling 64..20066.75 were possible", midN, mid[0]), ""
				}
				return "", fmt.Sprintf("mid=%d/%v", midN, mid[0])
			}
		}},
	}
}

func lruFinal(rec *recorder, init lruMState) (string, string) {
	ops := append([]porcupine.Operation{}, rec.ops...)
	sort.Slice(ops, func(i, j int) bool { return ops[i].Call < ops[j].Call })
	obs := ""
	for _, o := range ops {
		obs += fmt.Sprintf("%d:%v>%v;", o.ClientId, o.Input, o.Output)
	}
	if !porcupine.CheckOperations(lruPorcupineModel(init), ops) {
		return "the recorded call/return history of the LRU cache is not linearizable with respect to the LRU+TTL model: " + obs, obs
	}
	return "", obs
}

func newC11World(c *lib.Ctx) *c11World {
	cmds := uPick(uPool(), []int{0, 2, 3, 4, 5, 9, 17, 22})
	w := &c11World{solo: map[string]string{}, cmds: cmds}
	w.db = uMustDB(c, cmds)
	return w
}

// ---------------------------------------------------------------- explorer self-test

// c11SelfTest shows that the explorer finds a textbook lost update and a
// lock-order deadlock and does not invent one where a mutex protects the
// increment.
func c11SelfTest() string {
	found := false
	e := &schedExplorer{Bound: 1, Body: func() ([]func(), func(*schedExec)) {
		var x int64
		body := func() { v := vatomic.LoadInt64(&x); vatomic.StoreInt64(&x, v+1) }
		return []func(){body, body}, func(*schedExec) {
			if x == 1 {
				found = true
			}
		}
	}}
	e.Explore()
	if !found {
		return "explorer did not find the lost update of a load/store increment with 1 preemption"
	}
	bad := false
	e = &schedExplorer{Bound: 2, Body: func() ([]func(), func(*schedExec)) {
		var x int64
		var mu vsync.Mutex
		body := func() { mu.Lock(); v := vatomic.LoadInt64(&x); vatomic.StoreInt64(&x, v+1); mu.Unlock() }
		return []func(){body, body, body}, func(s *schedExec) {
			if x != 3 || s.Sched.Deadlock {
				bad = true
			}
		}
	}}
	e.Explore()
	if bad || e.Execs < 3 {
		return fmt.Sprintf("explorer reported a lost update or deadlock under a mutex (executions %d)", e.Execs)
	}
	dead := false
	e = &schedExplorer{Bound: 1, Body: func() ([]func(), func(*schedExec)) {
		var a, b vsync.Mutex
		return []func(){
				func() { a.Lock(); b.Lock(); b.Unlock(); a.Unlock() },
				func() { b.Lock(); a.Lock(); a.Unlock(); b.Unlock() },
			}, func(s *schedExec) {
				if s.Sched.Deadlock {
					dead = true
				}
			}
	}}
	e.Explore()
	if !dead {
		return "explorer did not find the lock-order deadlock"
	}
	return ""
}

// ---------------------------------------------------------------- run

type c11Case struct {
	Scenario string `json:"scenario"`
	Choices  []int  `json:"schedule_choices,omitempty"`
	Schedule string `json:"schedule,omitempty"`
	Race     string `json:"race_report,omitempty"`
}

func c11Explore(c *lib.Ctx, w *c11World, sc c11Scenario, bound int, k, r int, replay []int) (viols []lib.Violation, e *schedExplorer, outcomes map[string]bool) {
	outcomes = map[string]bool{}
	first := ""
	e = &schedExplorer{Bound: bound, MaxExecs: 400000}
	if c.Thorough() {
		e.MaxExecs = 4000000
	}
	var counter int
	e.Body = func() ([]func(), func(*schedExec)) {
		th, final := sc.Build(w)
		return th, func(x *schedExec) {
			bad, obs := final()
			key := ""
			switch {
			case x.Sched.Deadlock:
				key, bad = "deadlock", "deadlock: no thread enabled while some have not finished"
			case x.Sched.Overrun:
				key, bad = "livelock", "execution exceeded the scheduling-point horizon"
			}
			for i := 0; i < len(th); i++ {
				if pv := x.Sched.PanicOf(i); pv != nil {
					key, bad = "panic", fmt.Sprintf("thread %d panicked: %v", i, pv)
				}
			}
			if bad != "" {
				if key == "" {
					key = "oracle"
				}
				if len(viols) < 3 {
					viols = append(viols, lib.Violation{Key: sc.Name + ":" + key, What: sc.Name + ": " + bad + " [schedule: " + schedDescribe(x) + "]",
						Case: c11Case{Scenario: sc.Name, Choices: append([]int{}, x.Choices...), Schedule: schedDescribe(x)}})
				}
			}
			outcomes[obs] = true
			if first == "" {
				first = obs
			}
			counter++
		}
	}
	if replay != nil {
		e.run(replay)
		return
	}
	// determinism: the default schedule twice
	e.run(nil)
	o1 := first
	first = ""
	e.run(nil)
	if first != o1 {
		c.Fail("scenario %s: the same schedule gave different observations (%q vs %q)", sc.Name, o1, first)
	}
	e.Execs, e.Points = 0, 0
	outcomes = map[string]bool{}
	viols = nil
	// sharded DFS: the root execution belongs to r==0; depth-1 alternatives are dealt round-robin
	x := e.run(nil)
	if r != 0 {
		viols = nil
		outcomes = map[string]bool{}
	}
	n := 0
	for i := 0; i < len(x.Points); i++ {
		p := x.Points[i]
		if len(p.Enabled) < 2 {
			continue
		}
		cost := 0
		if p.RunningEnabled {
			cost = 1
		}
		if cost > bound {
			continue
		}
		for alt := 1; alt < len(p.Enabled); alt++ {
			n++
			if n%k != r {
				continue
			}
			e.explore(append(append([]int{}, x.Choices[:i]...), alt))
		}
	}
	return
}

func c11Run(c *lib.Ctx) {
	vhost.Set("linux")
	defer vhost.Set("")
	if c.Shard == 0 {
		if msg := c11SelfTest(); msg != "" {
			c.Fail("explorer self-test failed: %s", msg)
			return
		}
		c.Count("explorer_selftest_passed", 1)
		c11ChanSelfTest(c)
	}
	w := newC11World(c)
	scs := c11Scenarios()
	bound := 3
	if c.Thorough() {
		bound = 4
	}
	// assign workers to scenarios: scenario = shard % len, r = shard / len
	// worker -> scenario table: the monitored-database scenario has by far the largest schedule space
	table := []int{0, 1, 2, 3, 4, 5, 6, 7, 8, 9, 10, 11, 12, 5, 5, 5}
	if c.NShards != len(table) {
		table = nil
		for i := 0; i < c.NShards; i++ {
			table = append(table, i%len(scs))
		}
	}
	si := table[c.Shard]
	k, r := 0, 0
	for i, t := range table {
		if t == si {
			if i == c.Shard {
				r = k
			}
			k++
		}
	}
	sc := scs[si]
	viols, e, outcomes := c11Explore(c, w, sc, bound, k, r, nil)
	for _, v := range viols {
		c.Violate(v)
	}
	c.Rep.Evaluations += e.Execs
	c.Rep.Transitions += e.Points
	c.Rep.States += e.Execs
	c.Rep.Traces += e.Execs
	c.Count("executions:"+sc.Name, e.Execs)
	c.Count("distinct_outcomes:"+sc.Name, int64(len(outcomes)))
	c.Rep.Nontrivial += int64(len(outcomes))
	if e.Capped {
		c.Rep.Exhaustive = false
		c.Rep.Cap = fmt.Sprintf("%s: execution cap %d reached", sc.Name, e.MaxExecs)
	}
	if e.Stuck {
		// not a verdict: the code blocks on something the scheduler does not control (e.g. a channel)
		c.Rep.Exhaustive = false
		c.Rep.Cap = sc.Name + ": an execution blocked outside the controlled scheduler; schedule exploration of this scenario abandoned (race pass still run)"
		c.Note("%s", c.Rep.Cap)
	}
	c.Count("goroutines_spawned_by_code_under_test:"+sc.Name, int64(e.Spawned))
	if e.Diverged != "" {
		c.Fail("%s: %s", sc.Name, e.Diverged)
	}
	if r == 0 {
		c.Sample(map[string]any{"scenario": sc.Name, "preemption_bound": bound, "executions_this_worker": e.Execs, "distinct_outcomes_this_worker": len(outcomes)})
		c11RacePass(c, sc)
	}
}

// ---------------------------------------------------------------- free-running race pass

// child: vcheck.race -sub c11race <scenario> <reps> <scratch>
func c11RaceChild(args []string) int {
	if len(args) < 3 {
		return 2
	}
	reps, _ := strconv.Atoi(args[1])
	c := &lib.Ctx{Scratch: args[2], Rep: &lib.Report{Counters: map[string]int64{}}}
	if dn, err := os.OpenFile(os.DevNull, os.O_WRONLY, 0); err == nil {
		os.Stdout = dn
	}
	vhost.Set("linux")
	w := newC11World(c)
	for _, sc := range c11Scenarios() {
		if sc.Name != args[0] {
			continue
		}
		reported := false
		for i := 0; i < reps; i++ {
			th, final := sc.Build(w)
			var wg sync.WaitGroup
			start := make(chan struct{})
			for _, f := range th {
				wg.Add(1)
				go func(f func()) { defer wg.Done(); <-start; f() }(f)
			}
			close(start)
			wg.Wait()
			if bad, _ := final(); bad != "" && c11FreeOracle[sc.Name] && !reported {
				reported = true
				fmt.Fprintf(os.Stderr, "FREE-RUN-ORACLE: repetition %d: %s\n", i, bad)
			}
		}
		return 0
	}
	return 2
}

func c11RacePass(c *lib.Ctx, sc c11Scenario) {
	bin := os.Getenv("VERIF_VCHECK_RACE")
	if bin == "" {
		c.Note("race pass skipped for %s: no -race binary (VERIF_VCHECK_RACE unset)", sc.Name)
		c.Count("race_pass_skipped", 1)
		return
	}
	reps := 200
	if c.Thorough() {
		reps = 3000
	}
	cmd := exec.Command(bin, "-sub", "c11race", sc.Name, strconv.Itoa(reps), c.Scratch)
	cmd.Env = append(os.Environ(), "GOMAXPROCS=16", "GORACE=halt_on_error=0 exitcode=66")
	var stderr bytes.Buffer
	cmd.Stderr = &stderr
	err := cmd.Start()
	if err == nil {
		done := make(chan error, 1)
		go func() { done <- cmd.Wait() }()
		limit := 240 * time.Second
		if c.Thorough() {
			limit = 900 * time.Second
		}
		select {
		case err = <-done:
		case <-time.After(limit):
			// a free run that never ends is a sample, not a verdict: deadlocks are decided by the explorer
			cmd.Process.Kill()
			<-done
			c.Count("race_pass_timeouts", 1)
			c.Note("race pass of %s did not finish within %v and was stopped (no verdict from it)", sc.Name, limit)
			return
		}
	}
	out := stderr.String()
	c.Count("race_pass_runs:"+sc.Name, int64(reps))
	if strings.Contains(out, "DATA RACE") {
		rep := out[strings.Index(out, "WARNING: DATA RACE"):]
		if i := strings.Index(rep, "=================="); i > 0 {
			rep = rep[:i]
		}
		fn := "?"
		for _, l := range strings.Split(rep, "\n") {
			l = strings.TrimSpace(l)
			if strings.HasPrefix(l, "github.com/Vedant9500/WTF/internal/") {
				fn = strings.TrimPrefix(l, "github.com/Vedant9500/WTF/internal/")
				fn = strings.TrimSuffix(fn, "()")
				break
			}
		}
		c.Violate(lib.Violation{Key: "race:" + sc.Name + ":" + fn, What: fmt.Sprintf("%s: the race detector reports a data race in a free run of the scenario (first access in %s)", sc.Name, fn),
			Case: c11Case{Scenario: sc.Name, Race: truncStr(rep, 3000)}})
		return
	}
	if i := strings.Index(out, "FREE-RUN-ORACLE: "); i >= 0 {
		line := out[i+len("FREE-RUN-ORACLE: "):]
		if j := strings.Index(line, "\n"); j >= 0 {
			line = line[:j]
		}
		c.Violate(lib.Violation{Key: "free-run-oracle:" + sc.Name, What: fmt.Sprintf("%s: a free run of the scenario (real goroutines, no scheduler) ended in a state the oracle rejects: %s", sc.Name, truncStr(line, 600)),
			Case: c11Case{Scenario: sc.Name, Race: "free-run-oracle: " + truncStr(line, 1500)}})
		return
	}
	if err != nil {
		c.Fail("race pass of %s failed: %v: %s", sc.Name, err, truncStr(out, 500))
	}
}

func init() {
	lib.Subs["c11race"] = c11RaceChild
	lib.Register(&lib.Check{
		ID: "C11", Level: "model_checking",
		Rule:      "stateless schedule exploration (iterative context bounding): 13 closed scenarios of 3 threads x 1-3 operations on the real objects - S1 LRU capacity 2 (put/get/size/stats on colliding keys), S10 LRU with two writers of one key, S2 LRU with TTL (get / delete+put / clock advance+sweep+stats), S3 CachedDatabase (cached searches, InvalidateCache, CleanupExpiredCache, GetCacheStats), S11 CachedDatabase with entries ageing past their lifetime (searches vs clock advance + sweep vs stats + invalidate), S4 MonitoredDatabase (monitored searches + report), S5 metrics collector (two threads creating the same new series + histogram + GetAllMetrics), S6 direct SearchUniversal, S7 first searches on the loader's built-in fallback database, S8 SearchCache Put/Get vs InvalidatePattern, S9 counter/gauge increments, S13 the same query asked at the same time through the cached / monitored / direct entry points with different platform lists and context boosts by callers sharing one boosts map (answers as alone; the caller's map untouched; its oracle is also evaluated after every repetition of the free-running pass), S12 five observations of one histogram from three goroutines with a reader of count and sum (exact sum, no lost update) - every interleaving with <=3 (quick) / <=4 (thorough) preemptions at every Lock/RLock/atomic operation of the code under test; per execution: search answers equal solo answers, the recorded LRU call/return history is linearizable w.r.t. the LRU+TTL model (porcupine), totals equal the calls made, no deadlock / panic. states = executions (each a distinct schedule), transitions = scheduling points, traces validated = executions. Beside it, per scenario, a free-running -race pass (200 / 3000 repetitions) of the same bodies built without the scheduler shims: dynamic analysis, reported under race_pass_runs, not part of the exhaustive count. non-trivial = distinct observed outcomes",
		Assume:    []string{"scheduling points are the sync and sync/atomic function-API operations of the repository packages (build overlay); plain memory accesses are covered only by the separate race pass", "the shim RWMutex is writer-preferring like Go's (a reader arriving after Lock was called waits for that writer's Unlock)", "sequential consistency"},
		QuickSecs: 360, ThorSecs: 1800, Graph: true,
		Run: c11Run,
		Replay: func(c *lib.Ctx, raw json.RawMessage) []lib.Violation {
			vhost.Set("linux")
			defer vhost.Set("")
			var cs c11Case
			if json.Unmarshal(raw, &cs) != nil {
				return nil
			}
			w := newC11World(c)
			for _, sc := range c11Scenarios() {
				if sc.Name == cs.Scenario {
					if cs.Race != "" {
						cc := *c
						cc.Rep = &lib.Report{Counters: map[string]int64{}}
						c11RacePass(&cc, sc)
						return cc.Rep.Violations
					}
					ch := cs.Choices
					if ch == nil {
						ch = []int{}
					}
					v, _, _ := c11Explore(c, w, sc, 99, 1, 0, ch)
					return v
				}
			}
			return nil
		},
		Finish: func(m *lib.Report, tier string) string {
			if m.Counters["explorer_selftest_passed"] == 0 {
				return "explorer self-test did not run"
			}
			for _, sc := range c11Scenarios() {
				if m.Counters["executions:"+sc.Name] == 0 {
					return "vacuous: scenario " + sc.Name + " was not explored"
				}
			}
			for _, s := range []string{"S1-lru-cap2", "S2-lru-ttl", "S3-cached-database", "S5-collector-new-series"} {
				if m.Counters["distinct_outcomes:"+s] < 2 {
					return "vacuous: scenario " + s + " produced a single outcome (nothing collided)"
				}
			}
			return ""
		},
	})
}

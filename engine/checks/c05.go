package checks

import (
	"encoding/json"
	"fmt"
	"strconv"
	"strings"
	"time"

	"github.com/Vedant9500/WTF/internal/constants"
	"github.com/Vedant9500/WTF/internal/database"
	"github.com/Vedant9500/WTF/internal/zzvrt/vhost"
	"github.com/Vedant9500/WTF/internal/zzvrt/vtime"
	"github.com/Vedant9500/WTF/zzverif/lib"
)

// C05 — the result cache is invisible.  Engine E1 (sequence mode): every
// history of length <=d over {search(q,o)} ∪ {invalidate, disable, enable,
// sweep, advance clock, replace database} on a real CachedDatabase /
// MonitoredDatabase under the virtual clock; after every search the answer is
// compared with SearchUniversal on a freshly loaded copy of the commands
// current at that step.

var c05DBs = [][]int{
	{0, 2, 3, 4, 5, 9, 17, 22, 7},
	{4, 5, 6, 8, 14, 21, 0},
	{1, 2, 3, 4, 24, 9, 19, 22, 8}, // same size as the first
	nil,                            // index 3: the 40-entry database (more than 10 scoring candidates: limit-dependent re-rank window)
}

var c05Queries = []string{"git files", "GIT Files", " git files ", "comprss", " comprss ", "tar", "git files tar compress zip qzx", "files folder", "list files",
	// query 9: the same words as query 0, one of them repeated (a repeated word counts once per occurrence)
	"files git git"}

// c05BoostWord: a word that is NOT in query 8 and whose context boost nevertheless changes query 8's NLP
// answer on the 40-entry database (the NLP stage adds terms to the query and boosts apply to those too).
// Both are selected by newC05World, deterministically.
var c05BoostWord = "files"

type c05Opt struct {
	Name string
	O    Opts
}

func c05Options() []c05Opt {
	b := Opts{Limit: 3}
	mk := func(name string, f func(o *Opts)) c05Opt {
		o := b
		f(&o)
		return c05Opt{name, o}
	}
	return []c05Opt{
		{"base", b},
		mk("Limit", func(o *Opts) { o.Limit = 2 }),
		mk("ContextBoosts", func(o *Opts) { o.ContextBoosts = map[string]float64{"files": 3} }),
		mk("PipelineOnly", func(o *Opts) { o.PipelineOnly = true }),
		mk("PipelineBoost", func(o *Opts) { o.PipelineBoost = 50 }),
		mk("UseFuzzy", func(o *Opts) { o.UseFuzzy = true }),
		mk("FuzzyThreshold", func(o *Opts) { o.UseFuzzy, o.FuzzyThreshold = true, 1000 }),
		mk("UseNLP", func(o *Opts) { o.UseNLP = true }),
		mk("TopTermsCap", func(o *Opts) { o.TopTermsCap = 4 }),
		mk("AllPlatforms", func(o *Opts) { o.AllPlatforms = true }),
		mk("Platforms", func(o *Opts) { o.Platforms = []string{"windows"} }),
		mk("NoCrossPlatform", func(o *Opts) { o.NoCrossPlatform = true }),
		// used by the 40-entry plan only
		mk("NLP+Limit2", func(o *Opts) { o.UseNLP, o.Limit = true, 2 }),
		mk("NLP+Limit20", func(o *Opts) { o.UseNLP, o.Limit = true, 20 }),
		mk("Limit0", func(o *Opts) { o.Limit = 0 }),
		mk("Limit25", func(o *Opts) { o.Limit = 25 }),
		// used by the wrappers plan only
		mk("NLP+BoostOnAddedTerm", func(o *Opts) { o.UseNLP, o.ContextBoosts = true, map[string]float64{c05BoostWord: 3} }),
	}
}

type c05Op struct {
	Kind string `json:"op"` // search other invalidate disable enable sweep adv-half adv-ttl update
	Q    int    `json:"q,omitempty"`
	O    int    `json:"o,omitempty"`
	DB   int    `json:"db,omitempty"`
}

func (o c05Op) String() string {
	if o.Kind == "search" {
		return fmt.Sprintf("search(%q,%s)", c05Queries[o.Q], c05Options()[o.O].Name)
	}
	if o.Kind == "other" {
		return fmt.Sprintf("second-wrapper-search(%q,%s)", c05Queries[o.Q], c05Options()[o.O].Name)
	}
	if o.Kind == "update" {
		return fmt.Sprintf("update(db%d)", o.DB)
	}
	return o.Kind
}

type c05Case struct {
	Entry string  `json:"entry"` // cached | monitored
	Start int     `json:"start_db,omitempty"`
	Warm  bool    `json:"warm_start"`
	Ops   []c05Op `json:"ops"`
	Descr string  `json:"history,omitempty"`
}

// c05World holds the loaded command lists and the memo of fresh answers.
type c05World struct {
	cmds  [4][]Cmd              // as loaded (with lower-cased copies)
	fresh [4]*database.Database // never touched by the history
	memo  map[[3]int]string     // (db, q, o) -> digest
	opts  []c05Opt
	// boostSelected: a (query, word not in it) pair was found whose boost changes the NLP answer
	boostSelected bool
}

func newC05World(c *lib.Ctx) *c05World {
	w := &c05World{memo: map[[3]int]string{}, opts: c05Options()}
	for i, idx := range c05DBs {
		cmds := uPick(uPool(), idx)
		if idx == nil {
			cmds = uForty()
		}
		w.fresh[i] = uMustDB(c, cmds)
		w.cmds[i] = uMustDB(c, cmds).Commands
	}
	// query 7 drives the 40-entry plan: choose (deterministically, first in enumeration order) a query whose
	// NLP answer at limit 2 is NOT the head of its answer at limit 20, i.e. one that makes the
	// limit-dependent re-rank window observable
	o2, o20 := Opts{Limit: 2, UseNLP: true}, Opts{Limit: 20, UseNLP: true}
	for _, q := range append([]string{c05Queries[7]}, uQueries(uWords, 2)...) {
		a := uDigest(uItems(w.fresh[3], w.fresh[3].SearchUniversal(q, o2)))
		b := uDigest(uItems(w.fresh[3], w.fresh[3].SearchUniversal(q, o20)))
		if a != "" && !strings.HasPrefix(b, a) {
			c05Queries[7] = q
			break
		}
	}
	// query 8 + boost word drive the wrappers plan (see c05BoostWord)
	w.boostSelected = false
	words := append([]string{}, uWords...)
	for _, cm := range uForty() {
		words = append(words, cm.Keywords...)
	}
	base := Opts{Limit: 3, UseNLP: true}
sel:
	for _, q := range append([]string{"list files", "install package", "show folder contents", "compress folder", "search text", "delete files", "download file", "find files"}, uQueries(uWords, 2)...) {
		toks := map[string]bool{}
		for _, t := range strings.Fields(strings.ToLower(q)) {
			toks[t] = true
		}
		a := uDigest(uItems(w.fresh[3], w.fresh[3].SearchUniversal(q, base)))
		if a == "" {
			continue
		}
		for _, wd := range words {
			wl := strings.ToLower(wd)
			if toks[wl] || strings.ContainsAny(wl, " -.") || wl == "" {
				continue
			}
			o := base
			o.ContextBoosts = map[string]float64{wl: 3}
			if b := uDigest(uItems(w.fresh[3], w.fresh[3].SearchUniversal(q, o))); b != a {
				c05Queries[8], c05BoostWord, w.boostSelected = q, wl, true
				break sel
			}
		}
	}
	w.opts = c05Options()
	return w
}

func (w *c05World) expected(db, q, o int) string {
	k := [3]int{db, q, o}
	if d, ok := w.memo[k]; ok {
		return d
	}
	d := uDigest(uItems(w.fresh[db], w.fresh[db].SearchUniversal(c05Queries[q], w.opts[o].O)))
	w.memo[k] = d
	return d
}

func c05Alphabet(kind string) []c05Op {
	var ops []c05Op
	mut := func(kinds ...string) {
		for _, k := range kinds {
			ops = append(ops, c05Op{Kind: k})
		}
	}
	switch kind {
	case "mutators":
		// few searches, every mutator: long histories of switches, sweeps, clock and replacements
		ops = append(ops, c05Op{Kind: "search", Q: 0, O: 0}, c05Op{Kind: "search", Q: 0, O: 7}, c05Op{Kind: "search", Q: 3, O: 5})
		mut("invalidate", "disable", "enable", "sweep", "adv-half", "adv-ttl", "update-inplace")
		ops = append(ops, c05Op{Kind: "update", DB: 0}, c05Op{Kind: "update", DB: 1}, c05Op{Kind: "update", DB: 2})
		return ops
	case "wrappers":
		// two wrappers in one process (the second around another database), and a boost on a term that only
		// the NLP stage adds to the query
		ops = append(ops, c05Op{Kind: "search", Q: 0, O: 0}, c05Op{Kind: "search", Q: 0, O: 7}, c05Op{Kind: "search", Q: 8, O: 7}, c05Op{Kind: "search", Q: 8, O: 16},
			c05Op{Kind: "other", Q: 0, O: 0}, c05Op{Kind: "other", Q: 8, O: 16}, c05Op{Kind: "search", Q: 9, O: 0})
		mut("invalidate")
		ops = append(ops, c05Op{Kind: "update", DB: 1})
		return ops
	case "big":
		// the 40-entry database: limits around the re-rank window, with and without NLP
		for _, o := range []int{0, 1, 7, 12, 13, 14, 15} {
			ops = append(ops, c05Op{Kind: "search", Q: 7, O: o})
		}
		for _, o := range []int{7, 12, 13} {
			ops = append(ops, c05Op{Kind: "search", Q: 0, O: o})
		}
		mut("invalidate", "disable", "enable")
		ops = append(ops, c05Op{Kind: "update", DB: 3}, c05Op{Kind: "update", DB: 0})
		return ops
	}
	for q := 0; q < 7; q++ {
		for o := 0; o < 12; o++ {
			if kind == "colliding" {
				// the most colliding searches: three queries that share a key, all options;
				// the others only with base / fuzzy
				if q > 2 && !(o == 0 || o == 5) {
					continue
				}
			}
			ops = append(ops, c05Op{Kind: "search", Q: q, O: o})
		}
	}
	mut("invalidate", "disable", "enable", "sweep", "adv-half", "adv-ttl")
	ops = append(ops, c05Op{Kind: "update", DB: 0}, c05Op{Kind: "update", DB: 1}, c05Op{Kind: "update", DB: 2})
	return ops
}

// c05Run1 executes one history and returns the first violation.
func c05Run1(w *c05World, cs c05Case) (*lib.Violation, string) {
	vtime.Enable()
	defer vtime.Disable()
	vhost.Set("linux")
	cur := cs.Start
	cmds := append([]Cmd{}, w.cmds[cur]...)
	base := &database.Database{Commands: cmds}
	mdb := database.NewMonitoredDatabase(base)
	mdb.UpdateDatabase(cmds) // builds index and re-ranker through the public API
	// a second wrapper in the same process, around another database (created before the history starts)
	const otherDB = 0
	var other *database.MonitoredDatabase
	for _, op := range cs.Ops {
		if op.Kind == "other" && other == nil {
			oc := append([]Cmd{}, w.cmds[otherDB]...)
			other = database.NewMonitoredDatabase(&database.Database{Commands: oc})
			other.UpdateDatabase(oc)
		}
	}
	search := func(q string, o Opts) []database.SearchResult {
		if cs.Entry == "monitored" {
			return mdb.SearchWithOptionsAndMonitoring(q, o)
		}
		return mdb.SearchWithOptionsAndCache(q, o)
	}
	obs := ""
	var pv any
	var viol *lib.Violation
	verAt := make([]int, len(cs.Ops))
	func() {
		defer func() { pv = recover() }()
		for i, op := range cs.Ops {
			verAt[i] = cur
			switch op.Kind {
			case "search":
				rs := search(c05Queries[op.Q], w.opts[op.O].O)
				got := uDigest(uItems(mdb.Database, rs))
				// the caller owns what it was given (the CLI re-sorts it in place): scramble it
				for a, b := 0, len(rs)-1; a < b; a, b = a+1, b-1 {
					rs[a], rs[b] = rs[b], rs[a]
				}
				for k := range rs {
					rs[k].Score = -rs[k].Score - 1
				}
				want := w.expected(cur, op.Q, op.O)
				obs += got + "/"
				if got != want {
					key := "stale-or-unrelated-answer"
					// classify: the latest earlier search whose correct answer is what was served now
					for j := i - 1; j >= 0; j-- {
						p := cs.Ops[j]
						if p.Kind == "other" && got != "" && w.expected(otherDB, p.Q, p.O) == got {
							key = "entry-of-another-wrapper"
							break
						}
						if p.Kind != "search" || w.expected(verAt[j], p.Q, p.O) != got || got == "" {
							continue
						}
						switch {
						case verAt[j] != cur:
							key = "entry-outlived-database-replacement"
						case p.O != op.O && p.Q != op.Q:
							key = fmt.Sprintf("shared-entry:option:%s~%s+query", w.opts[p.O].Name, w.opts[op.O].Name)
						case p.O != op.O:
							a, b := w.opts[p.O].Name, w.opts[op.O].Name
							if a > b {
								a, b = b, a
							}
							key = "shared-entry:option:" + a + "~" + b
						default:
							key = fmt.Sprintf("shared-entry:query:%q~%q", c05Queries[p.Q], c05Queries[op.Q])
						}
						break
					}
					viol = &lib.Violation{Key: key, What: fmt.Sprintf("%s entry point, step %d %s: answer differs from an uncached search of the current database with the same query and options (history: %v)", cs.Entry, i+1, op, cs.Ops),
						Case: cs, Observed: got, Expected: want}
					return
				}
			case "other":
				var rs []database.SearchResult
				if cs.Entry == "monitored" {
					rs = other.SearchWithOptionsAndMonitoring(c05Queries[op.Q], w.opts[op.O].O)
				} else {
					rs = other.SearchWithOptionsAndCache(c05Queries[op.Q], w.opts[op.O].O)
				}
				got := uDigest(uItems(other.Database, rs))
				want := w.expected(otherDB, op.Q, op.O)
				obs += "o:" + got + "/"
				if got != want {
					viol = &lib.Violation{Key: "second-wrapper-served-foreign-entry", What: fmt.Sprintf("%s entry point, step %d %s: a second wrapper around another database does not get that database's uncached answer (history: %v)", cs.Entry, i+1, op, cs.Ops),
						Case: cs, Observed: got, Expected: want}
					return
				}
			case "invalidate":
				mdb.InvalidateCache()
			case "disable":
				mdb.EnableCache(false)
			case "enable":
				mdb.EnableCache(true)
			case "sweep":
				mdb.CleanupExpiredCache()
			case "adv-half":
				vtime.Advance(constants.DefaultCacheTTL/2 + time.Second)
			case "adv-ttl":
				vtime.Advance(constants.DefaultCacheTTL + time.Second)
			case "update":
				cur = op.DB
				mdb.UpdateDatabase(append([]Cmd{}, w.cmds[cur]...))
			case "update-inplace":
				// the caller edits the installed slice in place (databases A and C have the same size) and hands
				// that very slice back: still a replacement of the database
				if cur == 0 || cur == 2 {
					cur = 2 - cur
					copy(mdb.Database.Commands, w.cmds[cur])
					mdb.UpdateDatabase(mdb.Database.Commands)
				}
			}
		}
	}()
	if pv != nil {
		return &lib.Violation{Key: "panic", What: fmt.Sprintf("history %v panicked: %v", cs.Ops, pv), Case: cs}, "panic"
	}
	return viol, obs
}

func c05Run(c *lib.Ctx) {
	defer vhost.Set("")
	w := newC05World(c)
	// distinguishing pairs (non-vacuity): for every option field some query's fresh
	// answers must differ between base and the delta, on the first database
	if c.Shard == 0 {
		var missing []string
		for o := 1; o < 12; o++ {
			ref := 0
			if w.opts[o].Name == "FuzzyThreshold" {
				ref = 5
			}
			found := -1
			for q := range c05Queries {
				if w.expected(0, q, o) != w.expected(0, q, ref) {
					found = q
					break
				}
			}
			if found < 0 {
				missing = append(missing, w.opts[o].Name)
			} else {
				c.Note("distinguishing pair for %s: query %q", w.opts[o].Name, c05Queries[found])
				c.Count("distinguishing_pairs", 1)
			}
		}
		if len(missing) > 0 {
			c.Fail("vacuous: no query distinguishes option fields %v (a dropped key field would be unobservable)", missing)
		}
		padDiffers := false
		for db := 0; db < 3; db++ {
			for _, o := range []int{5, 6} {
				if w.expected(db, 3, o) != w.expected(db, 4, o) {
					padDiffers = true
				}
			}
		}
		if !padDiffers {
			c.Fail("vacuous: padded and plain fuzzy query have the same fresh answer everywhere")
		}
	}
	type plan struct {
		kind  string
		depth int
		start int
	}
	plans := []plan{{"full", 3, 0}, {"mutators", 5, 0}, {"big", 3, 3}, {"wrappers", 4, 3}}
	if c.Thorough() {
		plans = []plan{{"full", 3, 0}, {"colliding", 4, 0}, {"mutators", 6, 0}, {"big", 4, 3}, {"wrappers", 5, 3}}
	}
	if c.Shard == 0 {
		if !w.boostSelected {
			c.Fail("vacuous: no (query, word outside it) pair whose context boost changes the NLP answer on the 40-entry database")
		} else {
			c.Note("boost on an NLP-added term: query %q, word %q", c05Queries[8], c05BoostWord)
		}
	}
	if c.Shard == 0 {
		// the limit-dependent re-rank window must be observable on the 40-entry database
		a, b := w.expected(3, 7, 12), w.expected(3, 7, 13)
		if strings.HasPrefix(b, a) {
			c.Fail("vacuous: on the 40-entry database the NLP answer at limit 2 is a prefix of the answer at limit 20")
		}
	}
	var idx int64
	selfCheck := 0
	seen := map[string]bool{}
	for _, pl := range plans {
		alpha := c05Alphabet(pl.kind)
		for _, seq := range uSequences(len(alpha), pl.depth) {
			// a history without a search as its last step observes nothing new
			if k := alpha[seq[len(seq)-1]].Kind; k != "search" && k != "other" {
				continue
			}
			idx++
			if !c.Mine(idx) {
				continue
			}
			if idx%512 == int64(c.Shard) && c.Expired() {
				return
			}
			ops := make([]c05Op, len(seq))
			for i, j := range seq {
				ops[i] = alpha[j]
			}
			for _, entry := range []string{"cached", "monitored"} {
				for _, warm := range []bool{false, true} {
					if warm && len(ops) > 2 {
						continue
					}
					if warm && pl.kind != "full" {
						continue
					}
					cs := c05Case{Entry: entry, Warm: warm, Ops: ops, Start: pl.start}
					if warm {
						// warm start: every query searched once with base options first
						var pre []c05Op
						for q := range c05Queries {
							pre = append(pre, c05Op{Kind: "search", Q: q, O: 0})
						}
						cs.Ops = append(pre, ops...)
					}
					v, obs := c05Run1(w, cs)
					c.Rep.Evaluations++
					c.Rep.Transitions += int64(len(ops))
					if selfCheck < 64 {
						selfCheck++
						if _, o2 := c05Run1(w, cs); o2 != obs {
							c.Fail("harness nondeterminism on %+v", cs)
						}
					}
					if v != nil {
						c.Violate(*v)
					}
					if !seen[obs] {
						seen[obs] = true
						c.Rep.Nontrivial++
					}
					hasMut := false
					for _, op := range ops[:len(ops)-1] {
						if op.Kind != "search" {
							hasMut = true
							c.Count("histories_with:"+op.Kind, 1)
						}
					}
					if !hasMut && len(ops) > 1 {
						c.Count("histories_search_only", 1)
					}
					if idx%20000 == 7 && entry == "cached" && !warm {
						c.Sample(map[string]any{"history": fmt.Sprint(ops), "observed": obs})
					}
				}
			}
		}
	}
	c05LongLists(c, w)
	c.Rep.Traces = c.Rep.Evaluations
}

// c05LongLists: answers longer than any CLI limit. A database of 130 entries that all match, limits around 100
// and beyond: every request asked twice (and once more in another letter case) must equal the uncached answer.
func c05LongLists(c *lib.Ctx, w *c05World) {
	if c.Shard != 2%c.NShards {
		return
	}
	vtime.Enable()
	defer vtime.Disable()
	vhost.Set("linux")
	var cmds []Cmd
	for i := 0; i < 130; i++ {
		cmds = append(cmds, Cmd{Command: fmt.Sprintf("tool%03d files", i), Description: fmt.Sprintf("handle files number %d", i), Keywords: []string{"files", fmt.Sprintf("k%d", i%7)}})
	}
	fresh := uMustDB(c, cmds)
	for _, entry := range []string{"cached", "monitored"} {
		for _, lim := range []int{99, 100, 101, 129, 130, 131, 150, 1000} {
			for _, nlp := range []bool{false, true} {
				base := &database.Database{Commands: append([]Cmd{}, fresh.Commands...)}
				mdb := database.NewMonitoredDatabase(base)
				mdb.UpdateDatabase(base.Commands)
				o := Opts{Limit: lim, UseNLP: nlp, AllPlatforms: true}
				want := uDigest(uItems(fresh, fresh.SearchUniversal("files", o)))
				for step, q := range []string{"files", "files", "FILES"} {
					var rs []database.SearchResult
					if entry == "monitored" {
						rs = mdb.SearchWithOptionsAndMonitoring(q, o)
					} else {
						rs = mdb.SearchWithOptionsAndCache(q, o)
					}
					c.Rep.Evaluations++
					c.Count("long_list_requests", 1)
					if got := uDigest(uItems(mdb.Database, rs)); got != want {
						c.Violate(lib.Violation{Key: "long-list", What: fmt.Sprintf("%s entry point, 130 matching entries, limit %d, NLP %v: request %d of the same search returns %d results, an uncached search %d", entry, lim, nlp, step+1, len(rs), strings.Count(want, ";")),
							Case: c05Case{Entry: entry, Descr: fmt.Sprintf("long-list limit=%d nlp=%v", lim, nlp)}, Observed: truncStr(got, 300), Expected: truncStr(want, 300)})
						break
					}
				}
			}
		}
	}
}

func init() {
	_ = strconv.Itoa
	lib.Register(&lib.Check{
		ID: "C05", Level: "model_checking",
		Rule:      "sequence-mode exploration: every history ending in a search of length <=3 over the full alphabet (7 queries incl. case variant, padded variants, a typo and a 6-term query x 12 option settings = base + one single-field delta per SearchOptions field, + invalidate, disable, enable, sweep, advance TTL/2, advance TTL+1s, replace database A/B/C (C has A's size) = 93 operations) + every history of length <=5 (thorough 6) over 3 searches and all 10 mutators (incl. an in-place edit of the installed command slice handed back to UpdateDatabase) (long runs of switches, sweeps, clock advances and replacements) + every history of length <=3 (thorough 4) on a 40-entry database over 10 searches with limits {0,2,3,20,25} with and without NLP (limit-dependent re-rank window) and 5 mutators + every history of length <=4 (thorough 5) of the wrappers plan: searches on the wrapper under test and on a SECOND wrapper around another database in the same process (each must get its own database's uncached answer), a search with NLP and one with NLP plus a context boost on a word that is not in the query but among the terms the NLP stage adds (selected at run time so that the boost changes the answer), invalidate, replace, and a query that repeats one word of another + long lists (130 matching entries, limits 99..1000, every request asked three times) + (thorough) of length <=4 over the 38+8 most colliding operations; entry points SearchWithOptionsAndCache and SearchWithOptionsAndMonitoring; cold and warm start; virtual clock. After every search the caller scrambles the slice it was given (as the CLI's in-place re-sort does), and the answer must equal, bit for bit, SearchUniversal on a freshly loaded copy of the current commands. evaluations = histories executed on the real objects (= traces validated); non-trivial = histories with a distinct sequence of answers",
		Assume:    []string{"host pinned, map order pinned, clock virtual (vtime)", "non-finite option values are outside the option domain"},
		QuickSecs: 300, ThorSecs: 2400,
		Run: c05Run,
		Replay: func(c *lib.Ctx, raw json.RawMessage) []lib.Violation {
			defer vhost.Set("")
			var cs c05Case
			if json.Unmarshal(raw, &cs) != nil {
				return nil
			}
			if strings.HasPrefix(cs.Descr, "long-list") {
				cc := *c
				cc.Rep = &lib.Report{Counters: map[string]int64{}}
				cc.Shard = 2 % cc.NShards
				c05LongLists(&cc, nil)
				var out []lib.Violation
				for _, v := range cc.Rep.Violations {
					if cv, ok := v.Case.(c05Case); ok && cv.Descr == cs.Descr && cv.Entry == cs.Entry {
						out = append(out, v)
					}
				}
				return out
			}
			if v, _ := c05Run1(newC05World(c), cs); v != nil {
				return []lib.Violation{*v}
			}
			return nil
		},
		Finish: func(m *lib.Report, tier string) string {
			if !m.Exhaustive {
				return ""
			}
			if m.Counters["distinguishing_pairs"] < 11 {
				return "vacuous: fewer than 11 distinguishing pairs"
			}
			for _, k := range []string{"invalidate", "disable", "enable", "sweep", "adv-half", "adv-ttl", "update"} {
				if m.Counters["histories_with:"+k] == 0 {
					return "vacuous: no history with " + k
				}
			}
			return ""
		},
	})
}

//go:build noaccessor

package checks

import (
	"github.com/Vedant9500/WTF/internal/database"
	"github.com/Vedant9500/WTF/internal/embedding"
)

const accMode = "fallback (accessors did not compile against this tree)"

type bm25Params struct {
	K1                        float64
	BCmd, BDesc, BKeys, BTags float64
	WCmd, WDesc, WKeys, WTags float64
	MinIDF                    float64
}

func accParams(db *database.Database) bm25Params {
	return bm25Params{K1: 1.2, BCmd: .75, BDesc: .75, BKeys: .7, BTags: .7, WCmd: 3.5, WDesc: 1, WKeys: 2, WTags: 1.2}
}

func accSetEmbedding(db *database.Database, idx *embedding.Index) bool { return false }

func accSave(path string, e database.Command) (error, bool) { return nil, false }

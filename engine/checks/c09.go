package checks

import (
	"bytes"
	"encoding/json"
	"fmt"
	"os"
	"os/exec"
	"path/filepath"
	"strconv"
	"strings"
	"syscall"
	"time"

	"github.com/Vedant9500/WTF/internal/database"
	"github.com/Vedant9500/WTF/internal/history"
	"github.com/Vedant9500/WTF/internal/zzvrt/vos"
	"github.com/Vedant9500/WTF/internal/zzvrt/vtime"
	"github.com/Vedant9500/WTF/zzverif/lib"
)

// C09 — an interrupted or failed write never damages the notebook or the
// history. Engine E5: for every write operation (a notebook save, a history
// update) on every starting file, a dry run records the mutating file-system
// steps; then EVERY crash point (every step boundary and every byte of every
// write) and EVERY error point (same positions x {ENOSPC, EIO}) is injected at
// the os seam (vos) and the file is inspected as a fresh process would find it.
// Process twin: the real binary under RLIMIT_FSIZE = k for every k.

type c09Case struct {
	Target  string `json:"target"`  // notebook | history
	Entries int    `json:"entries"` // size of the starting file (-1 = missing)
	Second  bool   `json:"second_write,omitempty"`
	Symlink bool   `json:"symlinked_file,omitempty"`
	Fault   string `json:"fault"` // crash | ENOSPC | EIO | fsize
	Step    int    `json:"step"`
	Byte    int    `json:"byte"`
	Cmd     string `json:"cli_command,omitempty"`
}

func c09Notebook(n int) []Cmd {
	var out []Cmd
	for i := 0; i < n; i++ {
		out = append(out, Cmd{Command: fmt.Sprintf("saved-command-%02d --flag value", i), Description: fmt.Sprintf("Description number %d of an earlier save", i),
			Keywords: []string{"earlier", fmt.Sprintf("kw%d", i)}, Niche: "mine", Platform: []string{"linux"}})
	}
	return out
}

var c09NewEntry = Cmd{Command: "brand-new-command | sort", Description: "The entry being saved now", Keywords: []string{"new"}, Pipeline: true}
var c09SecondEntry = Cmd{Command: "saved-command-00 --flag value", Description: "Replaces the first entry", Keywords: []string{"replaced"}}

type c09Op struct {
	dir, path string
	run       func() error
}

// c09Setup restores the starting state and returns the operation under test.
func c09Setup(root string, cs c09Case) (op c09Op, old []byte, oldExists bool) {
	dir := filepath.Join(root, "c09")
	os.RemoveAll(dir)
	os.MkdirAll(dir, 0o755)
	if cs.Target == "notebook" {
		path := filepath.Join(dir, "personal.yml")
		if cs.Entries >= 0 {
			writeYAML(path, c09Notebook(cs.Entries))
			if cs.Entries == 0 {
				os.WriteFile(path, nil, 0o644)
			}
			oldExists = true
		}
		entry := c09NewEntry
		if cs.Second {
			// history of two writes: the first one completes, the second is the one under test
			accSave(path, c09NewEntry)
			entry = c09SecondEntry
			oldExists = true
		}
		c09Link(cs, dir, path)
		old, _ = os.ReadFile(path)
		return c09Op{dir, path, func() error { err, _ := accSave(path, entry); return err }}, old, oldExists
	}
	path := filepath.Join(dir, "search_history.json")
	vtime.Enable()
	if cs.Entries >= 0 {
		sh := history.NewSearchHistory(path, 100)
		for i := 0; i < cs.Entries; i++ {
			vtime.Advance(time.Second)
			if cs.Entries >= 2 && i == cs.Entries/2 {
				// the first half of the history is more than a month older than the write under test
				vtime.Advance(40 * 24 * time.Hour)
			}
			sh.AddEntry(fmt.Sprintf("earlier query %d", i), i%5, "generic directory", time.Duration(i)*time.Millisecond)
		}
		sh.Save()
		oldExists = true
	}
	q := "the query of this run"
	if cs.Second {
		sh := history.NewSearchHistory(path, 100)
		sh.Load()
		vtime.Advance(time.Second)
		sh.AddEntry(q, 1, "", time.Millisecond)
		sh.Save()
		q = "a second query"
		oldExists = true
	}
	c09Link(cs, dir, path)
	old, _ = os.ReadFile(path)
	vtime.Advance(time.Second)
	return c09Op{dir, path, func() error {
		// what the search command does after every search
		sh := history.NewSearchHistory(path, 100)
		_ = sh.Load()
		sh.AddEntry(q, 3, "generic directory", 5*time.Millisecond)
		return sh.Save()
	}}, old, oldExists
}

// c09Inspect is the oracle on the file as a fresh process finds it.
func c09Inspect(cs c09Case, path string, old, newC []byte, oldExists bool, opErr error, fired, crashed bool) (key, bad string) {
	got, err := os.ReadFile(path)
	exists := err == nil
	isOld := (exists == oldExists && bytes.Equal(got, old)) || (!oldExists && !exists) || (!oldExists && exists && len(got) == 0 && false)
	isNew := exists && bytes.Equal(got, newC)
	if !isOld && !isNew {
		what := fmt.Sprintf("holds %d bytes", len(got))
		if !exists {
			what = "is gone"
		}
		return "torn-file", fmt.Sprintf("after the %s at step %d byte %d the %s file %s: neither the complete previous content (%d bytes) nor the complete new content (%d bytes)", cs.Fault, cs.Step, cs.Byte, cs.Target, what, len(old), len(newC))
	}
	if !crashed && fired && !isNew && opErr == nil {
		return "unreported-failure", fmt.Sprintf("the write failed (%s at step %d byte %d) and did not take effect, but no error was reported", cs.Fault, cs.Step, cs.Byte)
	}
	// earlier entries still load
	if exists && cs.Target == "notebook" && len(got) > 0 {
		db, err := database.LoadDatabase(path)
		if err != nil {
			return "unloadable", fmt.Sprintf("notebook no longer loads: %v", err)
		}
		if cs.Entries > 0 && len(db.Commands) < cs.Entries {
			return "entries-lost", fmt.Sprintf("%d of %d earlier entries are left", len(db.Commands), cs.Entries)
		}
	}
	if exists && cs.Target == "history" && len(got) > 0 {
		sh := history.NewSearchHistory(path, 100)
		if err := sh.Load(); err != nil {
			return "unloadable", fmt.Sprintf("history no longer loads: %v", err)
		}
		if cs.Entries > 0 && len(sh.Entries) < cs.Entries {
			return "entries-lost", fmt.Sprintf("%d of %d earlier history entries are left", len(sh.Entries), cs.Entries)
		}
	}
	return "", ""
}

// c09Link turns the file into a symbolic link to a file kept elsewhere (a notebook linked from a
// dotfiles repository): the guarantee is about what the path holds, however it is laid out.
func c09Link(cs c09Case, dir, path string) {
	if !cs.Symlink {
		return
	}
	if _, err := os.Stat(path); err != nil {
		return
	}
	real := filepath.Join(dir, "dotfiles")
	os.MkdirAll(real, 0o755)
	target := filepath.Join(real, filepath.Base(path))
	os.Rename(path, target)
	os.Symlink(target, path)
}

type c09Point struct {
	step, byte int
	op         string
}

// c09Enumerate runs the whole fault enumeration for one (target, start) pair.
func c09Enumerate(c *lib.Ctx, base c09Case, only *c09Case) []lib.Violation {
	defer vtime.Disable()
	defer vos.Install(nil)
	var vs []lib.Violation
	seenKey := map[string]int{}
	// dry run
	op, old, oldExists := c09Setup(c.Scratch, base)
	h := vos.NewHooks()
	vos.Install(h)
	err := op.run()
	vos.Install(nil)
	if err != nil {
		c.Fail("dry run of %+v failed: %v", base, err)
		return nil
	}
	newC, _ := os.ReadFile(op.path)
	steps := h.Steps
	var pts []c09Point
	for i, s := range steps {
		if s.Op == "Write" {
			for k := 0; k <= s.N; k++ {
				pts = append(pts, c09Point{i, k, s.Op})
			}
		} else {
			pts = append(pts, c09Point{i, 0, s.Op})
		}
	}
	if only == nil {
		c.Count("dry_runs", 1)
		c.Count(fmt.Sprintf("steps:%s", base.Target), int64(len(steps)))
		var names []string
		for _, s := range steps {
			names = append(names, s.Op)
		}
		c.Note("%s write = %s (%d bytes new content)", base.Target, strings.Join(names, ","), len(newC))
	}
	for _, fault := range []string{"crash", "ENOSPC", "EIO"} {
		for _, p := range pts {
			cs := base
			cs.Fault, cs.Step, cs.Byte = fault, p.step, p.byte
			if only != nil && (only.Fault != cs.Fault || only.Step != cs.Step || only.Byte != cs.Byte) {
				continue
			}
			op, old2, _ := c09Setup(c.Scratch, base)
			if !bytes.Equal(old, old2) {
				c.Fail("harness nondeterminism: starting content differs between runs")
				return vs
			}
			h := vos.NewHooks()
			switch fault {
			case "crash":
				h.CrashStep, h.CrashByte = p.step, p.byte
			case "ENOSPC":
				h.ErrStep, h.ErrByte, h.Err = p.step, p.byte, syscall.ENOSPC
			case "EIO":
				h.ErrStep, h.ErrByte, h.Err = p.step, p.byte, syscall.EIO
			}
			vos.Install(h)
			var opErr error
			crashed := false
			var pv any
			func() {
				defer func() {
					if r := recover(); r != nil {
						if _, ok := r.(vos.Crash); ok {
							crashed = true
						} else {
							pv = r
						}
					}
				}()
				opErr = op.run()
			}()
			vos.Install(nil)
			c.Rep.Evaluations++
			if pv != nil {
				vs = append(vs, lib.Violation{Key: "panic", What: fmt.Sprintf("write path panicked under %s: %v", fault, pv), Case: cs})
				continue
			}
			if len(h.Steps) > p.step && (h.Steps[p.step].Op != steps[p.step].Op) {
				c.Fail("replay divergence: step %d is %s, was %s", p.step, h.Steps[p.step].Op, steps[p.step].Op)
			}
			if !h.Fired {
				continue
			}
			c.Count("injected:"+fault, 1)
			c.Rep.Nontrivial++
			key, bad := c09Inspect(cs, op.path, old, newC, oldExists, opErr, h.Fired, crashed)
			if key != "" {
				k := key + ":" + base.Target + ":" + fault + ":" + p.op
				seenKey[k]++
				if seenKey[k] <= 2 {
					vs = append(vs, lib.Violation{Key: k, What: bad, Case: cs})
				} else {
					c.Count("violation_key:"+k, 1)
				}
			}
		}
	}
	return vs
}

// c09CrashThenWrite: a write is killed at every crash point; afterwards a fresh process performs
// another, complete write whose content is SHORTER. That later write reported success, so the file
// must hold exactly its complete content (computed from whichever of {old, new1} the crash left).
func c09CrashThenWrite(c *lib.Ctx, target string, only *c09Case) []lib.Violation {
	defer vtime.Disable()
	defer vos.Install(nil)
	var vs []lib.Violation
	base := c09Case{Target: target, Entries: 5}
	long := Cmd{Command: "a-new-command-with-a-long-text", Description: strings.Repeat("a long description that makes the document longer ", 12), Keywords: []string{"long"}}
	second := func(path string) error {
		if target == "notebook" {
			err, _ := accSave(path, Cmd{Command: "saved-command-00 --flag value", Description: "short"})
			return err
		}
		sh := history.NewSearchHistory(path, 100)
		return sh.Clear()
	}
	first := func(path string) func() error {
		if target == "notebook" {
			return func() error { err, _ := accSave(path, long); return err }
		}
		return func() error {
			sh := history.NewSearchHistory(path, 100)
			_ = sh.Load()
			sh.AddEntry(strings.Repeat("a very long query ", 20), 3, "generic directory", 5*time.Millisecond)
			return sh.Save()
		}
	}
	// clean runs: new1, and the second write applied to old and to new1
	op, old, _ := c09Setup(c.Scratch, base)
	h := vos.NewHooks()
	vos.Install(h)
	if err := first(op.path)(); err != nil {
		c.Fail("crash-then-write dry run failed: %v", err)
		return nil
	}
	vos.Install(nil)
	steps := h.Steps
	new1, _ := os.ReadFile(op.path)
	second(op.path)
	eNew, _ := os.ReadFile(op.path)
	op, _, _ = c09Setup(c.Scratch, base)
	second(op.path)
	eOld, _ := os.ReadFile(op.path)
	if len(eOld) >= len(new1) || len(eNew) >= len(new1) {
		c.Fail("crash-then-write: the second content is not shorter than the first")
		return nil
	}
	seen := 0
	for i, s := range steps {
		n := 0
		if s.Op == "Write" {
			n = s.N
		}
		for k := 0; k <= n; k++ {
			cs := base
			cs.Fault, cs.Step, cs.Byte, cs.Second = "crash-then-write", i, k, true
			if only != nil && (only.Step != i || only.Byte != k) {
				continue
			}
			op, _, _ := c09Setup(c.Scratch, base)
			hh := vos.NewHooks()
			hh.CrashStep, hh.CrashByte = i, k
			vos.Install(hh)
			func() {
				defer func() {
					if r := recover(); r != nil {
						if _, ok := r.(vos.Crash); !ok {
							panic(r)
						}
					}
				}()
				first(op.path)()
			}()
			vos.Install(nil)
			mid, _ := os.ReadFile(op.path)
			err := second(op.path) // a fresh process, no faults
			got, _ := os.ReadFile(op.path)
			c.Rep.Evaluations++
			c.Count("injected:crash-then-write", 1)
			want := eOld
			if bytes.Equal(mid, new1) {
				want = eNew
			} else if !bytes.Equal(mid, old) {
				continue // the crash itself tore the file: reported by the single-fault enumeration
			}
			if err != nil || !bytes.Equal(got, want) {
				seen++
				if seen <= 2 {
					vs = append(vs, lib.Violation{Key: "stale-leftover:" + target, What: fmt.Sprintf("a %s write was killed at step %d (%s) byte %d; the next, complete write (reported %v) left %d bytes instead of its own %d-byte content (leftovers of the killed write were reused)", target, i, s.Op, k, errStr(err), len(got), len(want)), Case: cs})
				} else {
					c.Count("violation_key:stale-leftover:"+target, 1)
				}
			}
		}
	}
	return vs
}

// ---------------------------------------------------------------- process twin

// child: vcheck -sub fsize <k> <bin> args...  (sets RLIMIT_FSIZE then execs)
func c09FsizeChild(args []string) int {
	if len(args) < 2 {
		return 2
	}
	k, _ := strconv.ParseUint(args[0], 10, 64)
	lim := syscall.Rlimit{Cur: k, Max: k}
	if err := syscall.Setrlimit(syscall.RLIMIT_FSIZE, &lim); err != nil {
		fmt.Fprintln(os.Stderr, "setrlimit:", err)
		return 2
	}
	if err := syscall.Exec(args[1], args[1:], os.Environ()); err != nil {
		fmt.Fprintln(os.Stderr, "exec:", err)
	}
	return 2
}

func c09CLI(c *lib.Ctx, bin string, cmdName string, entries int, only *c09Case) []lib.Violation {
	var vs []lib.Violation
	self, _ := os.Executable()
	setup := func() (*cliEnv, string, []byte) {
		env := newCLIEnv(filepath.Join(c.Scratch, "c09cli"))
		target := env.NotebookPath()
		if cmdName == "search" {
			target = env.HistoryPath()
		}
		os.MkdirAll(filepath.Dir(target), 0o755)
		if cmdName == "search" {
			sh := history.NewSearchHistory(target, 100)
			for i := 0; i < entries; i++ {
				sh.AddEntry(fmt.Sprintf("earlier query %d", i), 1, "generic directory", time.Millisecond)
			}
			sh.Save()
			writeYAML(filepath.Join(env.Cwd, "main.yml"), c15MainCmds)
		} else {
			writeYAML(target, c09Notebook(entries))
		}
		old, _ := os.ReadFile(target)
		return env, target, old
	}
	args := map[string][]string{
		"save":          {"save", "--", c09NewEntry.Command, c09NewEntry.Description},
		"save-pipeline": {"save-pipeline", "--", "mypipe", c09NewEntry.Command},
		"search":        {"--no-color", "-d", "main.yml", "list", "files"},
		// an existing entry replaced by a much shorter one: the new file is shorter than the old one
		"save-shorter": {"save", "--", c09Notebook(1)[0].Command, "x"},
	}[cmdName]
	// unlimited run: the new content's length bounds k
	env, target, old := setup()
	r := env.run(bin, nil, args...)
	newC, _ := os.ReadFile(target)
	if bytes.Equal(newC, old) || len(newC) == 0 {
		c.Fail("process twin: unlimited `wtf %s` did not change %s: %s %s", cmdName, target, truncStr(r.Out, 200), truncStr(r.Err, 200))
		return nil
	}
	seen := map[string]int{}
	for k := 0; k <= len(newC); k++ {
		cs := c09Case{Target: map[bool]string{true: "history", false: "notebook"}[cmdName == "search"], Entries: entries, Fault: "fsize", Byte: k, Cmd: cmdName}
		if only != nil && only.Byte != k {
			continue
		}
		env, target, old2 := setup()
		if cmdName != "search" && !bytes.Equal(old, old2) {
			c.Fail("process twin: starting content differs")
			return vs
		}
		cmd := exec.Command(self, append([]string{"-sub", "fsize", strconv.Itoa(k), bin}, args...)...)
		cmd.Dir = env.Cwd
		cmd.Env = []string{"HOME=" + env.Home, "XDG_CONFIG_HOME=" + filepath.Join(env.Home, ".config"), "PATH=/usr/bin:/bin"}
		var so, se bytes.Buffer
		cmd.Stdout, cmd.Stderr = &so, &se
		runErr := cmd.Run()
		c.Rep.Evaluations++
		c.Count("fsize_runs:"+cmdName, 1)
		got, err := os.ReadFile(target)
		exists := err == nil
		isOld := exists && bytes.Equal(got, old2)
		// the history's new content carries a timestamp: compare structurally
		isNew := exists && len(got) == len(newC) && !isOld
		if cmdName != "search" {
			isNew = exists && bytes.Equal(got, newC)
		} else if exists && !isOld {
			sh := history.NewSearchHistory(target, 100)
			isNew = sh.Load() == nil && len(sh.Entries) == entries+1
		}
		key, bad := "", ""
		switch {
		case strings.Contains(se.String(), "panic:") || strings.Contains(se.String(), "goroutine "):
			key, bad = "cli-crash", "process crashed: "+truncStr(se.String(), 200)
		case !isOld && !isNew:
			key, bad = "torn-file", fmt.Sprintf("`wtf %s` with its writes cut at %d bytes left %s at %d bytes: neither the previous (%d) nor the new (%d) content", cmdName, k, filepath.Base(target), len(got), len(old2), len(newC))
		case cmdName != "search" && !isNew && strings.Contains(so.String(), "saved successfully"):
			key, bad = "unreported-failure", fmt.Sprintf("`wtf %s` with its writes cut at %d bytes printed 'saved successfully' although the notebook is unchanged", cmdName, k)
		}
		_ = runErr
		if !isNew {
			c.Rep.Nontrivial++
		}
		if key != "" {
			kk := key + ":" + cmdName
			seen[kk]++
			if seen[kk] <= 2 {
				vs = append(vs, lib.Violation{Key: kk, What: bad, Case: cs})
			} else {
				c.Count("violation_key:"+kk, 1)
			}
		}
	}
	return vs
}

func c09Run(c *lib.Ctx) {
	if _, ok := accSave(filepath.Join(c.Scratch, "probe", "p.yml"), Cmd{Command: "probe"}); !ok {
		c.Note("notebook write-path accessor unavailable (%s): in-process notebook part skipped", accMode)
		c.Rep.Exhaustive = false
		c.Rep.Cap = "accessor unavailable"
	}
	type job struct {
		base c09Case
		cli  string
	}
	var jobs []job
	sizes := []int{-1, 0, 1, 5}
	if c.Thorough() {
		sizes = append(sizes, 40)
	}
	for _, t := range []string{"notebook", "history"} {
		for _, n := range sizes {
			jobs = append(jobs, job{base: c09Case{Target: t, Entries: n}})
			if n == 1 || n == 5 {
				jobs = append(jobs, job{base: c09Case{Target: t, Entries: n, Second: true}})
			}
			if n == 5 {
				jobs = append(jobs, job{base: c09Case{Target: t, Entries: n, Symlink: true}})
			}
		}
	}
	cliSizes := []int{1, 5}
	if c.Thorough() {
		cliSizes = append(cliSizes, 40)
	}
	for _, cmd := range []string{"save", "save-pipeline", "search", "save-shorter"} {
		for _, n := range cliSizes {
			jobs = append(jobs, job{base: c09Case{Entries: n}, cli: cmd})
		}
	}
	for _, t := range []string{"notebook", "history"} {
		jobs = append(jobs, job{base: c09Case{Target: t, Fault: "crash-then-write"}})
	}
	bin := os.Getenv("VERIF_WTF")
	for ji, j := range jobs {
		if !c.Mine(int64(ji)) {
			continue
		}
		if c.Expired() {
			return
		}
		var vs []lib.Violation
		if j.cli != "" {
			if bin == "" {
				continue
			}
			vs = c09CLI(c, bin, j.cli, j.base.Entries, nil)
		} else {
			if j.base.Target == "notebook" && c.Rep.Cap == "accessor unavailable" {
				continue
			}
			if j.base.Fault == "crash-then-write" {
				vs = c09CrashThenWrite(c, j.base.Target, nil)
			} else {
				vs = c09Enumerate(c, j.base, nil)
			}
		}
		for _, v := range vs {
			c.Violate(v)
		}
		c.Sample(map[string]any{"job": j.base, "cli": j.cli})
	}
}

func init() {
	lib.Subs["fsize"] = c09FsizeChild
	lib.Register(&lib.Check{
		ID: "C09", Level: "fault_enumeration",
		Rule:      "exhaustive crash-point and error-point enumeration at the os seam (vos) on the real write paths: for the notebook save (saveToPersonalDatabase) and the history update made by every search (Load, AddEntry, Save), starting from a missing file and from files of 0, 1, 5 (quick) and 40 (thorough) entries (the older half of a history dated more than a month before the write), as the second write of a two-write history, and with the file being a symbolic link to a file kept elsewhere: a dry run records the mutating file-system steps (mkdir, create/truncate, every write, sync, chmod, close, rename, remove); then a crash is injected at EVERY step boundary and at EVERY byte offset of every write (later clean-up calls are dropped, as in a killed process), and ENOSPC and EIO are injected at the same positions; after each, the file as a fresh process finds it must equal the complete previous or the complete new content, a write that did not take effect must have returned an error, and the earlier entries must load. Two-fault histories: the first write is killed at EVERY crash point, then a fresh process completes a second, shorter write; the file must hold exactly that write's content (no reuse of leftovers). Process twin: the real `wtf save`, `wtf save-pipeline`, `wtf <query>` and a `wtf save` that replaces an existing entry by a much shorter one (new file shorter than the old) re-executed under RLIMIT_FSIZE = k for EVERY k in 0..len(new content), same oracle on the file plus 'saved successfully' only if saved. evaluations = injected runs; non-trivial = runs in which the fault fired",
		Assume:    []string{"file-system calls of the write path go through os.* functions that the build overlay routes to vos; a crash preserves the bytes already written (prefix model), no reordering of un-synced data", "history content is made deterministic with the virtual clock"},
		QuickSecs: 200, ThorSecs: 1500,
		Run: c09Run,
		Replay: func(c *lib.Ctx, raw json.RawMessage) []lib.Violation {
			var cs c09Case
			if json.Unmarshal(raw, &cs) != nil {
				return nil
			}
			if cs.Fault == "fsize" {
				if bin := os.Getenv("VERIF_WTF"); bin != "" {
					return c09CLI(c, bin, cs.Cmd, cs.Entries, &cs)
				}
				return nil
			}
			if cs.Fault == "crash-then-write" {
				return c09CrashThenWrite(c, cs.Target, &cs)
			}
			return c09Enumerate(c, c09Case{Target: cs.Target, Entries: cs.Entries, Second: cs.Second, Symlink: cs.Symlink}, &cs)
		},
		Finish: func(m *lib.Report, tier string) string {
			if !m.Exhaustive {
				return ""
			}
			if m.Counters["injected:crash"] < 500 {
				return "vacuous: fewer than 500 crash points - the write path is not going through the instrumented seam"
			}
			for _, k := range []string{"injected:crash", "injected:ENOSPC", "injected:EIO", "injected:crash-then-write", "fsize_runs:save", "fsize_runs:save-pipeline", "fsize_runs:search", "fsize_runs:save-shorter"} {
				if m.Counters[k] == 0 {
					return "vacuous: counter " + k + " is zero"
				}
			}
			return ""
		},
	})
}

package checks

import (
	"encoding/json"
	"fmt"
	"os"
	"path/filepath"
	"strconv"
	"strings"
	"unicode/utf8"

	"github.com/Vedant9500/WTF/internal/database"
	"github.com/Vedant9500/WTF/zzverif/lib"
)

// C08 — a saved command is stored faithfully, keeps its neighbours and is
// searchable. (in-process, E1) every save history of length <=3 over an entry
// alphabet, and every string of <=2 atoms of a YAML-hostile alphabet in every
// string field, from three starting notebooks, through the real write path;
// (process, E6) the real `wtf save` / `wtf save-pipeline` with every atom as
// every argument.

var c08Atoms = []string{
	"", "-", "- a", ": ", "a: b", "#x", " #x", "'", "\"", "''", "\"q\"", "{{.Names}}", "null", "~", "true", "123", "1e3", "0x1f",
	"a\nb", "a\n", "\na", "a\r\nb", "\t", "a\tb", " a", "a ", "\x00", "\x07", "\x1b[31mred\x1b[0m", "\xff", "a\xffb", "\u0085", "\u2028", "\ufeff", "é",
	"|", ">", "!!binary", "&a", "*a", "%", "@", "`", "[a]", "{a}", "? a", "a\n\n\nb", "  a\n b", "\n", "\r", "=", "<<", "y", "on", "2001-12-14", ".inf", "\\", "\\n", "plain words here", "a,b", "---", "...",
}

type c08Entry struct {
	Command  string   `json:"command_quoted"`
	Desc     string   `json:"description_quoted"`
	Keywords []string `json:"keywords_quoted,omitempty"`
	Niche    string   `json:"category_quoted,omitempty"`
	Platform []string `json:"platforms_quoted,omitempty"`
	Pipeline bool     `json:"pipeline,omitempty"`
}

func q(s string) string { return strconv.Quote(s) }
func uq(s string) string {
	x, err := strconv.Unquote(s)
	if err != nil {
		return s
	}
	return x
}

func (e c08Entry) cmd() Cmd {
	c := Cmd{Command: uq(e.Command), Description: uq(e.Desc), Niche: uq(e.Niche), Pipeline: e.Pipeline}
	for _, k := range e.Keywords {
		c.Keywords = append(c.Keywords, uq(k))
	}
	for _, p := range e.Platform {
		c.Platform = append(c.Platform, uq(p))
	}
	return c
}

func mkEntry(c Cmd) c08Entry {
	e := c08Entry{Command: q(c.Command), Desc: q(c.Description), Niche: q(c.Niche), Pipeline: c.Pipeline}
	for _, k := range c.Keywords {
		e.Keywords = append(e.Keywords, q(k))
	}
	for _, p := range c.Platform {
		e.Platform = append(e.Platform, q(p))
	}
	return e
}

type c08Case struct {
	Start string     `json:"start"` // missing | empty | two
	Saves []c08Entry `json:"saves"`
	Mode  string     `json:"mode"` // inprocess | cli-save | cli-save-pipeline
	Field string     `json:"field,omitempty"`
}

var c08StartTwo = []Cmd{
	{Command: "first --keep", Description: "first kept entry", Keywords: []string{"keep", "zqxfirst"}, Niche: "old", Platform: []string{"linux"}},
	// tags cannot be set by `wtf save`; an entry edited by hand or copied from the shipped database has them
	{Command: "second | keep", Description: "second kept entry", Keywords: []string{"keep"}, Tags: []string{"zqxtag", "oncall"}, Pipeline: true},
}

func sameStrs(a, b []string) bool {
	if len(a) != len(b) {
		return false
	}
	for i := range a {
		if a[i] != b[i] {
			return false
		}
	}
	return true
}

func sameEntry(a, b *Cmd) bool {
	return a.Command == b.Command && a.Description == b.Description && a.Niche == b.Niche && a.Pipeline == b.Pipeline &&
		sameStrs(a.Keywords, b.Keywords) && sameStrs(a.Platform, b.Platform) && sameStrs(a.Tags, b.Tags)
}

func descEntry(c *Cmd) string {
	return fmt.Sprintf("{command:%q description:%q keywords:%q category:%q platforms:%q pipeline:%v}", c.Command, c.Description, c.Keywords, c.Niche, c.Platform, c.Pipeline)
}

// compareNotebook loads the notebook file and compares it with the reference list.
func compareNotebook(path string, ref []Cmd, refExists bool) string {
	_, statErr := os.Stat(path)
	if !refExists {
		if statErr == nil {
			b, _ := os.ReadFile(path)
			if len(strings.TrimSpace(string(b))) != 0 && string(b) != "[]\n" {
				return fmt.Sprintf("notebook must still be absent/empty, it holds %d bytes", len(b))
			}
		}
		return ""
	}
	db, err := database.LoadDatabase(path)
	if err != nil {
		return fmt.Sprintf("the notebook no longer loads: %v", err)
	}
	if len(db.Commands) != len(ref) {
		return fmt.Sprintf("notebook holds %d entries, expected %d", len(db.Commands), len(ref))
	}
	for i := range ref {
		if !sameEntry(&db.Commands[i], &ref[i]) {
			return fmt.Sprintf("entry %d reads back as %s, expected %s", i, descEntry(&db.Commands[i]), descEntry(&ref[i]))
		}
	}
	return ""
}

func refSave(ref []Cmd, e Cmd) []Cmd {
	out := append([]Cmd{}, ref...)
	for i := range out {
		if out[i].Command == e.Command {
			out[i] = e
			return out
		}
	}
	return append(out, e)
}

func c08Prepare(dir, start string) (path string, ref []Cmd, exists bool) {
	path = filepath.Join(dir, "nb", "personal.yml")
	os.RemoveAll(filepath.Join(dir, "nb"))
	switch start {
	case "empty":
		os.MkdirAll(filepath.Dir(path), 0o755)
		os.WriteFile(path, nil, 0o644)
		return path, nil, false
	case "two":
		os.MkdirAll(filepath.Dir(path), 0o755)
		writeYAML(path, c08StartTwo)
		return path, append([]Cmd{}, c08StartTwo...), true
	}
	return path, nil, false
}

// c08InProcess runs a history through the real write path.
func c08InProcess(dir string, cs c08Case) (*lib.Violation, string) {
	path, ref, exists := c08Prepare(dir, cs.Start)
	obs := ""
	for i, se := range cs.Saves {
		e := se.cmd()
		var err error
		var ok bool
		var pv any
		func() {
			defer func() { pv = recover() }()
			err, ok = accSave(path, e)
		}()
		if pv != nil {
			return &lib.Violation{Key: "panic", What: fmt.Sprintf("save %d panicked: %v", i+1, pv), Case: cs}, "panic"
		}
		if !ok {
			return nil, "no-accessor"
		}
		if err == nil {
			ref = refSave(ref, e)
			exists = true
			obs += "ok;"
		} else {
			obs += "err;"
		}
		if bad := compareNotebook(path, ref, exists); bad != "" {
			key := "unfaithful"
			switch {
			case strings.Contains(bad, "no longer loads"):
				key = "notebook-destroyed"
			case err != nil:
				key = "failed-save-changed-notebook"
			case strings.Contains(bad, "holds"):
				key = "entry-count"
			}
			fld := cs.Field
			if fld == "" {
				fld = "history"
			}
			return &lib.Violation{Key: key + ":" + fld + ":" + c08Shape(se),
				What: fmt.Sprintf("after save %d (%s, reported %v): %s", i+1, descEntry(&e), errStr(err), bad), Case: cs}, obs
		}
	}
	// merged database = main entries followed by notebook entries; a saved entry is found by its word
	lastOK := strings.HasSuffix(obs, "ok;")
	if exists && len(ref) > 0 {
		mainP := filepath.Join(dir, "nb", "main.yml")
		mainC := []Cmd{{Command: "main one", Description: "from the main file", Keywords: []string{"mainword"}},
			// the main file may already list the very command string the user saves with their own words
			{Command: ref[len(ref)-1].Command, Description: "the main file's own entry for this command", Keywords: []string{"mainword"}}}
		writeYAML(mainP, mainC)
		db, err := database.LoadDatabaseWithPersonal(mainP, path)
		if err != nil {
			return &lib.Violation{Key: "merge-fails", What: fmt.Sprintf("main + notebook no longer load together: %v", err), Case: cs}, obs
		}
		want := append(append([]Cmd{}, mainC...), ref...)
		if len(db.Commands) != len(want) {
			return &lib.Violation{Key: "merge-order", What: fmt.Sprintf("merged database has %d entries, expected main(2)+notebook(%d)", len(db.Commands), len(ref)), Case: cs}, obs
		}
		for i := range want {
			if !sameEntry(&db.Commands[i], &want[i]) {
				return &lib.Violation{Key: "merge-order", What: fmt.Sprintf("merged entry %d is %s, expected %s", i, descEntry(&db.Commands[i]), descEntry(&want[i])), Case: cs}, obs
			}
		}
		last := cs.Saves[len(cs.Saves)-1].cmd()
		for _, word := range []string{"zqxsaved"} {
			if lastOK && refContains(&last, word) {
				found := false
				for _, r := range db.SearchUniversal(word, Opts{Limit: 50, AllPlatforms: true}) {
					if r.Command.Command == last.Command && r.Command.Description == last.Description {
						found = true
					}
				}
				if !found {
					return &lib.Violation{Key: "not-searchable", What: fmt.Sprintf("the saved entry %s is not found by a search for its word %q", descEntry(&last), word), Case: cs}, obs
				}
				obs += "found;"
				// ... and by the pipeline sub-command's search (`wtf pipeline <word>`, which `save-pipeline` recommends)
				found = false
				for _, r := range db.SearchWithPipelineOptions(word, Opts{Limit: 50, PipelineOnly: last.Pipeline}) {
					if r.Command.Command == last.Command && r.Command.Description == last.Description {
						found = true
					}
				}
				if !found {
					return &lib.Violation{Key: "not-searchable:pipeline-search", What: fmt.Sprintf("the saved entry %s is not found by the pipeline search (SearchWithPipelineOptions, pipeline-only=%v) for its word %q", descEntry(&last), last.Pipeline, word), Case: cs}, obs
				}
			}
		}
	}
	return nil, obs
}

func errStr(err error) string {
	if err == nil {
		return "success"
	}
	return "error: " + truncStr(err.Error(), 80)
}

// c08Shape classifies the offending string for known-finding keys.
func c08Shape(e c08Entry) string {
	c := e.cmd()
	all := append([]string{c.Command, c.Description, c.Niche}, append(c.Keywords, c.Platform...)...)
	shape := "plain"
	for _, s := range all {
		switch {
		case !utf8.ValidString(s):
			return "invalid-utf8"
		case strings.HasPrefix(s, "\n") || strings.HasPrefix(s, "\r"):
			return "leading-newline"
		case strings.Contains(s, "\n") && (strings.HasPrefix(s, " ") || strings.HasPrefix(s, "\t")):
			return "leading-space-multiline"
		case strings.ContainsAny(s, "\n\r\u0085\u2028"):
			shape = "multiline"
		case strings.ContainsAny(s, "\x00\x07\x1b") && shape == "plain":
			shape = "control"
		}
	}
	return shape
}

func c08FieldEntry(field, s string) Cmd {
	e := Cmd{Command: "cmd-under-test", Description: "plain description zqxsaved", Keywords: []string{"plainkw"}, Niche: "cat", Platform: []string{"linux"}}
	switch field {
	case "command":
		e.Command = s
	case "description":
		e.Description = s
	case "keyword":
		e.Keywords = []string{"zqxsaved", s}
		e.Description = "plain"
	case "category":
		e.Niche = s
	case "platform":
		e.Platform = []string{s, "linux"}
	}
	return e
}

var c08Fields = []string{"command", "description", "keyword", "category", "platform"}

func c08HistoryAlphabet() []Cmd {
	return []Cmd{
		{Command: "tar -czf b.tgz /home", Description: "backup zqxsaved", Keywords: []string{"backup"}},
		{Command: "tar -czf b.tgz /home", Description: "backup again zqxsaved (replaces)", Keywords: []string{"backup", "again"}, Niche: "files"},
		{Command: "docker ps --format 'table {{.Names}}\\t{{.Status}}'", Description: "containers: names # status zqxsaved", Keywords: []string{"docker"}, Platform: []string{"linux", "macos"}, Niche: "files"},
		{Command: "first --keep", Description: "replaces a starting entry zqxsaved", Pipeline: true},
		{Command: "- weird: 'yaml' #", Description: "null", Keywords: []string{"true", "123", "~"}, Niche: "!!str"},
		{Command: "printf 'a\\nb'", Description: "two\nlines zqxsaved", Keywords: []string{"multi\nline"}, Niche: "old"},
		// near-twins: different command strings that differ only in blanks or letter case
		{Command: "grep -F 'a  b' notes.txt", Description: "two blanks zqxsaved", Keywords: []string{"grep"}, Niche: "files"},
		{Command: "grep -F 'a b' notes.txt", Description: "one blank zqxsaved", Keywords: []string{"grep"}},
		{Command: "first  --keep", Description: "two blanks, not the starting entry zqxsaved", Niche: "Files"},
		{Command: "FIRST --KEEP ", Description: "upper case and a trailing blank zqxsaved"},
	}
}

// ---------------------------------------------------------------- process level

func argvSafe(s string) bool { return !strings.Contains(s, "\x00") }

func c08CLI(c *lib.Ctx, bin string, cs c08Case) (*lib.Violation, string) {
	env := newCLIEnv(filepath.Join(c.Scratch, "cli"))
	nb := env.NotebookPath()
	var ref []Cmd
	exists := false
	switch cs.Start {
	case "empty":
		os.MkdirAll(filepath.Dir(nb), 0o755)
		os.WriteFile(nb, nil, 0o644)
	case "two":
		os.MkdirAll(filepath.Dir(nb), 0o755)
		writeYAML(nb, c08StartTwo)
		ref, exists = append([]Cmd{}, c08StartTwo...), true
	}
	obs := ""
	for i, se := range cs.Saves {
		e := se.cmd()
		var args []string
		var want Cmd
		if cs.Mode == "cli-save-pipeline" {
			// wtf save-pipeline <name> <command>
			args = []string{"save-pipeline"}
			name := e.Niche
			if name == "" {
				name = "n"
			}
			want = Cmd{Command: e.Command, Description: e.Description, Niche: "", Platform: e.Platform, Pipeline: true}
			auto := []string{"pipeline", "workflow"}
			if strings.Contains(e.Command, "grep") {
				auto = append(auto, "search", "filter")
			}
			if strings.Contains(e.Command, "awk") || strings.Contains(e.Command, "sed") {
				auto = append(auto, "text", "processing")
			}
			if strings.Contains(e.Command, "sort") {
				auto = append(auto, "sort", "order")
			}
			if strings.Contains(e.Command, "find") {
				auto = append(auto, "find", "search")
			}
			want.Keywords = append(auto, e.Keywords...)
			if e.Description != "" {
				args = append(args, "--description="+e.Description)
			} else {
				want.Description = fmt.Sprintf("%s - %d-step pipeline", name, len(strings.Split(e.Command, "|")))
			}
			for _, k := range e.Keywords {
				args = append(args, "--keywords="+k)
			}
			for _, p := range e.Platform {
				args = append(args, "--platforms="+p)
			}
			args = append(args, "--", name, e.Command)
		} else {
			args = []string{"save"}
			want = e
			for _, k := range e.Keywords {
				args = append(args, "--keywords="+k)
			}
			if e.Niche != "" {
				args = append(args, "--category="+e.Niche)
			}
			for _, p := range e.Platform {
				args = append(args, "--platforms="+p)
			}
			if e.Pipeline {
				args = append(args, "--pipeline")
			}
			args = append(args, "--", e.Command, e.Description)
		}
		r := env.run(bin, nil, args...)
		if strings.Contains(r.Err, "panic:") || strings.Contains(r.Err, "goroutine ") || r.Signal != "" || r.TimedOut || (r.Exit != 0 && r.Exit != 1) {
			return &lib.Violation{Key: "cli-crash:" + cs.Mode, What: fmt.Sprintf("wtf %s crashed (exit %d %s): %s", strings.Join(args[:1], " "), r.Exit, r.Signal, truncStr(r.Err, 200)), Case: cs}, "crash"
		}
		ok := strings.Contains(r.Out, "saved successfully")
		failed := strings.Contains(r.Out, "Error saving")
		if ok == failed {
			return &lib.Violation{Key: "cli-unclear:" + cs.Mode, What: fmt.Sprintf("wtf %s reported neither success nor failure clearly: %s", args[0], truncStr(r.Out+r.Err, 200)), Case: cs}, "unclear"
		}
		if ok {
			ref = refSave(ref, want)
			exists = true
			obs += "ok;"
		} else {
			obs += "err;"
		}
		if bad := compareNotebook(nb, ref, exists); bad != "" {
			key := "unfaithful"
			if strings.Contains(bad, "no longer loads") {
				key = "notebook-destroyed"
			} else if !ok {
				key = "failed-save-changed-notebook"
			}
			return &lib.Violation{Key: key + ":" + cs.Mode + ":" + cs.Field + ":" + c08Shape(se), What: fmt.Sprintf("after `wtf %s` %d (%s, said %q): %s", args[0], i+1, descEntry(&want), map[bool]string{true: "saved successfully", false: "Error saving"}[ok], bad), Case: cs}, obs
		}
	}
	// the next search finds it
	if exists && len(cs.Saves) > 0 && strings.HasSuffix(obs, "ok;") {
		last := cs.Saves[len(cs.Saves)-1].cmd()
		if refContains(&last, "zqxsaved") && utf8.ValidString(last.Command) && !strings.ContainsAny(last.Command, "\n\r") && strings.TrimSpace(last.Command) != "" {
			mainP := filepath.Join(env.Cwd, "main.yml")
			writeYAML(mainP, []Cmd{{Command: "main one", Description: "from the main file", Keywords: []string{"mainword"}},
				{Command: last.Command, Description: "the main file's own entry for this command", Keywords: []string{"mainword"}}})
			r := env.run(bin, nil, "--no-color", "-a", "-d", mainP, "zqxsaved")
			if !strings.Contains(r.Out, last.Command) {
				return &lib.Violation{Key: "cli-not-searchable", What: fmt.Sprintf("`wtf zqxsaved` after saving %s does not print it: %s", descEntry(&last), truncStr(r.Out, 300)), Case: cs}, obs
			}
			obs += "found;"
		}
	}
	return nil, obs
}

func c08Run(c *lib.Ctx) {
	var idx int64
	selfCheck := 0
	starts := []string{"missing", "empty", "two"}
	// strings: atoms and (thorough: all, quick: every 3rd) ordered pairs
	var strs []string
	strs = append(strs, c08Atoms...)
	for _, a := range c08Atoms {
		for _, b := range c08Atoms {
			strs = append(strs, a+b)
		}
	}
	if c.Thorough() {
		hostile := []string{"\n", " ", "a", "-", ": ", "#", "'", "\"", "\t", "\r", "|", ">", "\x00", "\xff", "[", "{"}
		for _, s3 := range uSequences(len(hostile), 3)[len(hostile)+len(hostile)*len(hostile):] {
			strs = append(strs, hostile[s3[0]]+hostile[s3[1]]+hostile[s3[2]])
		}
	}
	for _, s := range strs {
		for _, f := range c08Fields {
			for _, st := range starts {
				idx++
				if !c.Mine(idx) {
					continue
				}
				if idx%256 == int64(c.Shard) && c.Expired() {
					return
				}
				cs := c08Case{Start: st, Mode: "inprocess", Field: f, Saves: []c08Entry{mkEntry(c08FieldEntry(f, s))}}
				v, obs := c08InProcess(c.Scratch, cs)
				c.Rep.Evaluations++
				if obs == "no-accessor" {
					c.Note("notebook write-path accessor unavailable (%s): in-process part skipped", accMode)
					c.Rep.Exhaustive = false
					c.Rep.Cap = "accessor unavailable"
					goto cli
				}
				if selfCheck < 32 {
					selfCheck++
					if _, o2 := c08InProcess(c.Scratch, cs); o2 != obs {
						c.Fail("harness nondeterminism on %+v", cs)
					}
				}
				if v != nil {
					c.Violate(*v)
				} else if strings.HasPrefix(obs, "ok") {
					c.Count("saves_succeeded", 1)
					if s != "" && s != "plain words here" {
						c.Rep.Nontrivial++
					}
				} else {
					c.Count("saves_refused", 1)
				}
			}
		}
	}
	// histories
	{
		alpha := c08HistoryAlphabet()
		for _, seq := range uSequences(len(alpha), 3) {
			for _, st := range starts {
				idx++
				if !c.Mine(idx) {
					continue
				}
				cs := c08Case{Start: st, Mode: "inprocess"}
				distinct := map[string]bool{}
				for _, j := range seq {
					cs.Saves = append(cs.Saves, mkEntry(alpha[j]))
					distinct[alpha[j].Command] = true
				}
				v, obs := c08InProcess(c.Scratch, cs)
				c.Rep.Evaluations++
				c.Rep.Transitions += int64(len(seq))
				if v != nil {
					c.Violate(*v)
				}
				if len(distinct) < len(seq) {
					c.Count("histories_with_replace", 1)
				}
				if len(distinct) == 3 {
					c.Count("histories_with_3_distinct", 1)
				}
				if strings.Contains(obs, "found") {
					c.Count("saved_entry_found_by_search", 1)
				}
			}
		}
	}
cli:
	bin := os.Getenv("VERIF_WTF")
	if bin == "" {
		c.Note("process part skipped: VERIF_WTF unset")
		return
	}
	for _, mode := range []string{"cli-save", "cli-save-pipeline"} {
		for ai, a := range c08Atoms {
			if !argvSafe(a) {
				continue
			}
			for _, f := range c08Fields {
				if (f == "keyword" || f == "platform") && (a == "" || strings.ContainsAny(a, ",\"\n\r")) {
					continue // the flag value is a CSV list by the CLI's own syntax (comma, quote and line break are syntax)
				}
				if mode == "cli-save-pipeline" && f == "category" {
					continue // the positional <name> is not stored
				}
				idx++
				if !c.Mine(idx) {
					continue
				}
				if c.Expired() {
					return
				}
				e := c08FieldEntry(f, a)
				if mode == "cli-save-pipeline" {
					e.Niche = ""
					e.Pipeline = true
				}
				st := starts[ai%3]
				cs := c08Case{Start: st, Mode: mode, Field: f, Saves: []c08Entry{mkEntry(c08StartTwo[1]), mkEntry(e)}}
				v, obs := c08CLI(c, bin, cs)
				c.Rep.Evaluations += 2
				c.Count("cli_runs", 2)
				if v != nil {
					c.Violate(*v)
				} else if strings.Contains(obs, "found") {
					c.Count("cli_saved_entry_found_by_search", 1)
				}
				if strings.Contains(obs, "ok;") {
					c.Count("cli_saves_succeeded", 1)
				}
			}
		}
	}
}

func init() {
	lib.Register(&lib.Check{
		ID: "C08", Level: "model_checking",
		Rule:      "(in-process, the real saveToPersonalDatabase through an overlay accessor) every string made of 1 atom or of 2 atoms (all 3,844 ordered pairs; thorough: + all 4,096 triples over 16 hostile atoms) of a 62-atom YAML-hostile alphabet (leading '-', ': ', '#', quotes, '{{...}}', null/true/numbers/dates, multi-line shapes, tabs, leading/trailing space, NUL, BEL, ESC, invalid UTF-8, NEL, LS, BOM, block-scalar and tag indicators, anchors, flow indicators, merge key ...) in each of the 5 string fields x 3 starting notebooks (missing, empty file, 2 entries one of which carries hand-written tags); + every save history of length <=3 over a 10-entry alphabet (incl. replace-by-command, replacing a starting entry, multi-line and YAML-looking entries, near-twin commands that differ only in blanks or letter case, and four entries of one category saved around entries of none) x 3 starts. After every save: if it reported success the re-loaded notebook equals the reference list field by field and in order, otherwise it equals the reference before the save; main + notebook load as main entries followed by notebook entries, also when the main file already lists the saved command string; a search for the saved entry's word returns it, through SearchUniversal and through the pipeline sub-command's search. (process) the real `wtf save` and `wtf save-pipeline` with every argv-safe atom as each argument/flag value after a first ordinary save, same oracle on the notebook file, plus `wtf <word>` printing the saved command. non-trivial = successful saves of non-plain strings",
		Assume:    []string{"yaml.v3's decoder through LoadDatabase defines 're-loading the notebook'", "list-flag values that are empty or contain ',', '\"' or a line break are CSV syntax and are not used as single keywords / platforms", "the write path is reached through an overlay accessor (" + accMode + ")"},
		QuickSecs: 200, ThorSecs: 1500,
		Run: c08Run,
		Replay: func(c *lib.Ctx, raw json.RawMessage) []lib.Violation {
			var cs c08Case
			if json.Unmarshal(raw, &cs) != nil {
				return nil
			}
			var v *lib.Violation
			if cs.Mode == "inprocess" {
				v, _ = c08InProcess(c.Scratch, cs)
			} else if bin := os.Getenv("VERIF_WTF"); bin != "" {
				v, _ = c08CLI(c, bin, cs)
			}
			if v != nil {
				return []lib.Violation{*v}
			}
			return nil
		},
		Finish: func(m *lib.Report, tier string) string {
			if !m.Exhaustive {
				return ""
			}
			for _, k := range []string{"saves_succeeded", "histories_with_replace", "histories_with_3_distinct", "saved_entry_found_by_search", "cli_saves_succeeded", "cli_saved_entry_found_by_search"} {
				if m.Counters[k] == 0 {
					return "vacuous: counter " + k + " is zero"
				}
			}
			return ""
		},
	})
}

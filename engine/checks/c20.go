package checks

import (
	"encoding/json"
	"fmt"
	"strconv"
	"strings"
	"unicode"

	"github.com/Vedant9500/WTF/internal/database"
	"github.com/Vedant9500/WTF/internal/validation"
	"github.com/Vedant9500/WTF/internal/zzvrt/vhost"
	"github.com/Vedant9500/WTF/zzverif/lib"
)

// C20 — letter case and spare white space in the query never change the answer.
// Engine E2: every query of the universe x every case re-spelling (all 2^n
// patterns for n<=6 cased letters, 5 patterns otherwise) on the lexical, NLP,
// typo-fallback, cached and suggestion paths; white-space paddings through
// the validator the CLI applies first.

type c20Case struct {
	DB     dbSpec `json:"db"`
	Base   string `json:"base_query_quoted"`
	Spell  string `json:"respelled_query_quoted"`
	Path   string `json:"path"`
	Padded string `json:"padded_quoted,omitempty"`
}

func casedPositions(rs []rune) []int {
	var out []int
	for i, r := range rs {
		l := unicode.ToLower(r)
		u := unicode.ToUpper(l)
		if u != l && unicode.ToLower(u) == l && foldEq(l, u) {
			out = append(out, i)
		}
	}
	return out
}

// respellings returns the case re-spellings of q (q itself lower-cased first).
// c20AllPatterns: up to how many cased letters every one of the 2^n patterns is taken (thorough: 9)
var c20AllPatterns = 6

func respellings(q string) []string {
	rs := []rune(strings.ToLower(q))
	pos := casedPositions(rs)
	n := len(pos)
	mk := func(up func(k int) bool) string {
		out := append([]rune{}, rs...)
		for k, p := range pos {
			if up(k) {
				out[p] = unicode.ToUpper(unicode.ToLower(out[p]))
			}
		}
		return string(out)
	}
	var out []string
	if n <= c20AllPatterns {
		for mask := 0; mask < 1<<n; mask++ {
			m := mask
			out = append(out, mk(func(k int) bool { return m&(1<<k) != 0 }))
		}
		return append(out, otherCapitals(rs)...)
	}
	out = append(out, mk(func(int) bool { return false }), mk(func(int) bool { return true }),
		mk(func(k int) bool { return k == 0 || (pos[k] > 0 && rs[pos[k]-1] == ' ') }),
		mk(func(k int) bool { return k%2 == 1 }), mk(func(k int) bool { return k == n-1 }))
	return append(out, otherCapitals(rs)...)
}

// otherCapitals: letters that have a second upper-case form whose lower-casing is the same letter and agrees
// with simple case folding (k: KELVIN SIGN U+212A, å: ANGSTROM SIGN U+212B, ω: OHM SIGN U+2126, θ: U+03F4 ...).
// Two more spellings: every such letter in that form, and only the first one.
func otherCapitals(lower []rune) []string {
	alt := func(l rune) rune {
		for r := unicode.SimpleFold(l); r != l; r = unicode.SimpleFold(r) {
			if r != unicode.ToUpper(l) && unicode.ToLower(r) == l {
				return r
			}
		}
		return 0
	}
	all := append([]rune{}, lower...)
	first := append([]rune{}, lower...)
	n := 0
	for i, l := range lower {
		if a := alt(l); a != 0 {
			all[i] = a
			if n == 0 {
				first[i] = a
			}
			n++
		}
	}
	switch n {
	case 0:
		return nil
	case 1:
		return []string{string(all)}
	}
	return []string{string(all), string(first)}
}

var c20Paths = []string{"lexical", "nlp", "fuzzy", "fuzzy-30", "nlp+fuzzy", "cached", "suggestions", "lexical-cap4", "nlp-cap5"}

// the two term-cap paths matter only where the cap can bite: queries of four words or more
func c20PathApplies(path, q string) bool {
	if strings.Contains(path, "-cap") {
		return len(strings.Fields(q)) >= 4
	}
	return true
}

func c20Opts(path string, n int) Opts {
	o := Opts{Limit: n + 3}
	switch path {
	case "nlp":
		o.UseNLP = true
	case "fuzzy":
		o.UseFuzzy = true
	case "fuzzy-30":
		o.UseFuzzy, o.FuzzyThreshold = true, -30
	case "lexical-cap4":
		o.TopTermsCap = 4
	case "nlp-cap5":
		o.UseNLP, o.TopTermsCap = true, 5
	case "nlp+fuzzy", "cached":
		o.UseNLP, o.UseFuzzy, o.FuzzyThreshold = true, true, -30
	}
	return o
}

type c20Env struct {
	db  *database.Database
	cdb *database.CachedDatabase
}

func (e *c20Env) answer(path, q string) string {
	o := c20Opts(path, len(e.db.Commands))
	switch path {
	case "suggestions":
		return strings.Join(e.db.GetSuggestions(q, 5), "\x00") + "\x01"
	case "cached":
		return uDigest(uItems(e.db, e.cdb.SearchWithOptionsAndCache(q, o)))
	}
	return uDigest(uItems(e.db, e.db.SearchUniversal(q, o)))
}

func c20Eval(e *c20Env, cs c20Case) (*lib.Violation, string) {
	base, _ := strconv.Unquote(cs.Base)
	sp, _ := strconv.Unquote(cs.Spell)
	var a, b string
	var pv any
	func() {
		defer func() { pv = recover() }()
		if cs.Path == "cached" {
			// q fills the cache, Q is then served from q's entry
			e.cdb.InvalidateCache()
			a = e.answer("cached", base)
			b = e.answer("cached", sp)
			if fresh := e.answer("nlp+fuzzy", sp); fresh != b {
				b = "cached answer differs from a fresh search of the same spelling: " + b
			}
			return
		}
		a = e.answer(cs.Path, base)
		b = e.answer(cs.Path, sp)
	}()
	if pv != nil {
		return &lib.Violation{Key: "panic", What: fmt.Sprintf("search panicked: %v", pv), Case: cs}, "panic"
	}
	if a != b {
		return &lib.Violation{Key: "case-sensitive:" + cs.Path, What: fmt.Sprintf("%s path: %s and its re-spelling %s receive different answers", cs.Path, cs.Base, cs.Spell), Case: cs, Observed: b, Expected: a}, a
	}
	return nil, a
}

func c20Queries() []string {
	seen := map[string]bool{}
	var out []string
	add := func(q string) {
		q = strings.ToLower(q)
		if !seen[q] {
			seen[q] = true
			out = append(out, q)
		}
	}
	for _, q := range uQueries(uWords, 2) {
		add(q)
	}
	for _, q := range []string{"comprss", "gt sttus", "fils", "qz", "instal pakage", "show folder contents", "find files without opening", "manage ip windows",
		"école café", "show file without opening", "see contents without editing", "look inside folder", "read text", "readme without opening", "overview file without editing", "список", "файл", "λίστα", "mkdir", "recrd chngs", "lst", "c", "zip out", "apt", "caf", "échó",
		// stop words: dropped by the tokenizer whatever their case, so they never use up the term budget
		"how to find the largest files in a directory", "how do i list all the files in my folder", "what is the command to compress a folder with tar",
		"the a an to of in", "how to git",
		// words that name a platform or its shell (proper nouns people capitalise)
		"list files windows", "files on windows", "powershell list files", "linux files", "qzx macos", "git log windows"} {
		add(q)
	}
	return out
}

func c20DBs(thorough bool) []dbSpec {
	sub := []int{0, 2, 4, 5, 6, 20, 21, 22, 24, 25}
	var out []dbSpec
	k := 2
	if thorough {
		k = 3
	}
	for _, s := range uSubsets(len(sub), k) {
		idx := make([]int, len(s))
		for i, j := range s {
			idx[i] = sub[j]
		}
		out = append(out, dbSpec{Pool: idx})
	}
	out = append(out, dbSpec{Special: "forty"}, dbSpec{Special: "unicode"}, dbSpec{Special: "nlpextra"})
	return out
}

func c20Build(c *lib.Ctx, s dbSpec) *database.Database {
	if s.Special == "unicode" {
		cmds := append(uPick(uPool(), []int{4, 20, 25}),
			Cmd{Command: "список файлов", Description: "Показать Файлы в папке", Keywords: []string{"файл", "Список"}},
			Cmd{Command: "λίστα αρχείων", Description: "Εμφάνιση ΑΡΧΕΙΩΝ", Keywords: []string{"λίστα"}},
			Cmd{Command: "École Run", Description: "Démarrer l'École", Keywords: []string{"école"}})
		return uMustDB(c, cmds)
	}
	if s.Special == "nlpextra" {
		return uMustDB(c, append(uPick(uPool(), []int{4, 6, 8, 24}), c06Extra()...))
	}
	return s.build(c)
}

func c20Run(c *lib.Ctx) {
	vhost.Set("linux")
	defer vhost.Set("")
	c20AllPatterns = 6
	if c.Thorough() {
		c20AllPatterns = 9
	}
	qs := c20Queries()
	var idx int64
	selfCheck := 0
	for di, spec := range c20DBs(c.Thorough()) {
		if !c.Mine(int64(di)) {
			continue
		}
		if c.Expired() {
			return
		}
		db := c20Build(c, spec)
		env := &c20Env{db: db, cdb: database.NewCachedDatabase(db)}
		for _, q := range qs {
			sps := respellings(q)
			for _, path := range c20Paths {
				if !c20PathApplies(path, q) {
					continue
				}
				for _, sp := range sps[1:] {
					cs := c20Case{DB: spec, Base: strconv.Quote(q), Spell: strconv.Quote(sp), Path: path}
					v, obs := c20Eval(env, cs)
					c.Rep.Evaluations += 2
					idx++
					if selfCheck < 64 {
						selfCheck++
						if _, o2 := c20Eval(env, cs); o2 != obs {
							c.Fail("harness nondeterminism on %+v", cs)
						}
					}
					if v != nil {
						c.Violate(*v)
						continue
					}
					if obs != "" && obs != "\x01" {
						c.Rep.Nontrivial++
						c.Count("answered:"+path, 1)
					}
					if idx%100000 == 17 {
						c.Sample(map[string]any{"case": cs, "observed": obs})
					}
				}
			}
		}
	}
	c20Processes(c)
	// white space: what the CLI does first with its arguments
	if c.Shard == 0 {
		pads := []func(string) string{
			func(q string) string { return " " + q },
			func(q string) string { return q + "  " },
			func(q string) string { return "\t" + q + "\n" },
			func(q string) string { return strings.ReplaceAll(q, " ", "   ") },
			func(q string) string { return strings.ReplaceAll(q, " ", " \t ") },
			// Unicode blanks (NBSP, EM SPACE, IDEOGRAPHIC SPACE) at the ends and inside repeated white space
			func(q string) string { return "\u00a0 " + strings.ReplaceAll(q, " ", " \u2003 ") + "\u3000" },
			func(q string) string { return strings.ReplaceAll(q, " ", "\u00a0 ") + " \u2003" },
		}
		var envs []*c20Env
		for _, q := range qs {
			want, err := validation.ValidateQuery(q)
			if err != nil {
				continue
			}
			for pi, pad := range pads {
				got, err2 := validation.ValidateQuery(pad(q))
				c.Rep.Evaluations++
				c.Count("padding_cases", 1)
				if err2 != nil {
					c.Violate(lib.Violation{Key: "padding", What: fmt.Sprintf("padding %d of %q is rejected (%v), the plain query accepted", pi, q, err2),
						Case: c20Case{Base: strconv.Quote(q), Padded: strconv.Quote(pad(q)), Path: "validate"}})
					continue
				}
				if got == want {
					continue
				}
				// the validated forms differ: then the engine must still give both the same answer on every path
				c.Count("padding_cases_validated_differently", 1)
				if envs == nil {
					for _, sp := range []dbSpec{{Special: "forty"}, {Special: "nlpextra"}} {
						db := c20Build(c, sp)
						envs = append(envs, &c20Env{db: db, cdb: database.NewCachedDatabase(db)})
					}
				}
				for ei, e := range envs {
					for _, path := range c20Paths {
						if path == "cached" {
							e.cdb.InvalidateCache()
						}
						a := e.answer(path, want)
						if path == "cached" {
							e.cdb.InvalidateCache()
						}
						b := e.answer(path, got)
						c.Rep.Evaluations += 2
						if a != b {
							c.Violate(lib.Violation{Key: "padding:" + path, What: fmt.Sprintf("padding %d of %q is validated to %q, the plain query to %q, and the %s path answers them differently (database %d)", pi, q, got, want, path, ei),
								Case: c20Case{Base: strconv.Quote(q), Padded: strconv.Quote(pad(q)), Path: "validate"}, Observed: b, Expected: a})
						}
					}
				}
			}
		}
	}
}

func init() {
	lib.Register(&lib.Check{
		ID: "C20", Level: "model_checking",
		Rule:      "every query (all 1- and 2-word sequences over the lower-cased 22-word alphabet + 26 typo / NLP / non-ASCII queries + 5 stop-word-laden queries of up to 11 words + 6 queries naming a platform or its shell) x every case re-spelling (all 2^n patterns when the query has n<=6 (thorough: n<=9) cased letters, else lower/UPPER/Title/alternating/last-letter; plus, for letters with a second capital form such as k / KELVIN SIGN, the spelling with all of them and with the first of them in that form) x paths {lexical, NLP, fuzzy thr 0, fuzzy thr -30, NLP+fuzzy, cached (q then Q, served from q's entry, also compared with a fresh search of Q), suggestions; for queries of >=4 words also lexical with TopTermsCap 4 and NLP with TopTermsCap 5} x databases (all subsets of <=2 (thorough: <=3) of 10 pool entries incl. upper-case and non-ASCII text, the 40-entry database, a Cyrillic/Greek/Latin-1 database, a database with the NLP expansion vocabulary): answers must be bit-identical to the lower-case spelling's; 8 white-space paddings of every query (ASCII and Unicode blanks, leading / trailing / repeated) through ValidateQuery: the validated form is the plain query's, or else every path must answer both forms alike; process pairs (plain vs re-cased / padded command line) for `wtf <query>` on two databases, also under a Turkish locale in the environment, and for `wtf pipeline <query>`. Letters re-cased only between ToLower/ToUpper forms that are mutually inverse and fold-equivalent. evaluations = searches; non-trivial = pairs with a non-empty answer",
		Assume:    []string{"map order pinned, host pinned", "CLI-level padding and case pairs are checked at process level in C17"},
		QuickSecs: 150, ThorSecs: 900,
		Run: c20Run,
		Replay: func(c *lib.Ctx, raw json.RawMessage) []lib.Violation {
			vhost.Set("linux")
			defer vhost.Set("")
			var cs c20Case
			if json.Unmarshal(raw, &cs) != nil {
				return nil
			}
			if cs.Path == "validate" || strings.HasPrefix(cs.Path, "cli") {
				return nil // process pairs are re-run by the check itself, not by the in-process replay
			}
			db := c20Build(c, cs.DB)
			if v, _ := c20Eval(&c20Env{db: db, cdb: database.NewCachedDatabase(db)}, cs); v != nil {
				return []lib.Violation{*v}
			}
			return nil
		},
		Finish: func(m *lib.Report, tier string) string {
			if !m.Exhaustive {
				return ""
			}
			for _, p := range c20Paths {
				if m.Counters["answered:"+p] == 0 {
					return "vacuous: no non-empty answer on path " + p
				}
			}
			if m.Counters["padding_cases"] == 0 {
				return "vacuous: no padding case"
			}
			return ""
		},
	})
}

package checks

import (
	"fmt"
	"os"
	"path/filepath"
	"regexp"
	"strings"

	"github.com/Vedant9500/WTF/internal/validation"
	"github.com/Vedant9500/WTF/zzverif/lib"
)

// Process-level (E6) parts of C01, C02, C14 and C20: the same binary-driving
// helpers as C17, applied to the claims those properties make about separate
// processes and about what the CLI prints.

var timingRe = regexp.MustCompile(`(?m)^Search completed in .*$`)

// c02Processes: the instrumented binary (every map range routed through
// vmap) is run once per forced iteration order; whole-process outputs must be
// byte-identical after dropping the timing line. "Re-loading the same files"
// and "separate processes" are the same thing here: a different order while
// the index is built.
func c02Processes(c *lib.Ctx) {
	bin := os.Getenv("VERIF_WTF_INSTR")
	if bin == "" {
		c.Note("process form skipped: VERIF_WTF_INSTR unset")
		return
	}
	type pc struct {
		db    string
		cmds  []Cmd
		query string
	}
	var cases []pc
	for _, q := range []string{"git", "git commit", "files", "compress files", "list files", "gt cmmit", "tar", "zzzzzzzzzz epos", "push files", "unpack"} {
		cases = append(cases, pc{"ties12", uIdentical(12), q}, pc{"forty", uForty(), q}, pc{"pool", uPool(), q})
	}
	shipped := filepath.Join(c.Repo, "assets", "commands.yml")
	for _, q := range c01ShippedQueries {
		cases = append(cases, pc{"shipped", nil, q})
	}
	for i, cs := range cases {
		if !c.Mine(int64(i)) {
			continue
		}
		if c.Expired() {
			return
		}
		env := newCLIEnv(filepath.Join(c.Scratch, "c02p"))
		dbPath := filepath.Join(env.Cwd, "db.yml")
		if cs.cmds != nil {
			writeYAML(dbPath, cs.cmds)
		} else {
			dbPath = shipped
		}
		var ref string
		for _, order := range []string{"sorted", "reverse", "rotate", "swap"} {
			for _, lim := range []string{"2", "5"} {
				if order != "sorted" && lim == "5" && cs.cmds == nil {
					continue
				}
				r := env.run(bin, []string{"VERIF_MAPORDER=" + order}, "--format", "json", "-v", "--no-color", "-d", dbPath, "--limit", lim, "--", cs.query)
				c.Rep.Evaluations++
				c.Count("process_runs", 1)
				if why := crashed(r); why != "" {
					c.Violate(lib.Violation{Key: "process-crash", What: "instrumented wtf " + why, Case: c02Case{Query: q(cs.query), What: "process:" + cs.db}})
					continue
				}
				out := lim + "\n" + timingRe.ReplaceAllString(r.Out, "")
				if lim == "2" {
					if order == "sorted" {
						ref = out
					} else if out != ref {
						c.Violate(lib.Violation{Key: "process-output-differs:" + cs.db, What: fmt.Sprintf("`wtf --format json -v %q` on the %s database prints a different answer when the process walks its maps in %s order", cs.query, cs.db, order),
							Case: c02Case{Query: q(cs.query), What: "process:" + cs.db + ":" + order}, Observed: truncStr(out, 1200), Expected: truncStr(ref, 1200)})
					}
				}
			}
		}
		// the plain binary (runtime-randomised maps), five times
		if plain := os.Getenv("VERIF_WTF"); plain != "" {
			var first string
			for k := 0; k < 5; k++ {
				r := env.run(plain, nil, "--format", "json", "-v", "--no-color", "-d", dbPath, "--limit", "3", "--", cs.query)
				c.Rep.Evaluations++
				c.Count("plain_process_runs", 1)
				out := timingRe.ReplaceAllString(r.Out, "")
				if k == 0 {
					first = out
				} else if out != first {
					c.Violate(lib.Violation{Key: "process-output-differs:plain:" + cs.db, What: fmt.Sprintf("five runs of `wtf --format json -v %q` on the %s database did not print the same answer", cs.query, cs.db),
						Case: c02Case{Query: q(cs.query), What: "process:plain:" + cs.db}, Observed: truncStr(out, 1200), Expected: truncStr(first, 1200)})
					break
				}
			}
		}
	}
}

// c20Processes: pairs of command lines whose queries differ only in letter
// case or in leading / trailing / repeated white space print the same results.
func c20Processes(c *lib.Ctx) {
	bin := os.Getenv("VERIF_WTF")
	if bin == "" {
		c.Note("process form skipped: VERIF_WTF unset")
		return
	}
	bases := []string{"git commit", "compress files", "list files", "gt cmmit", "unpack", "zzzzzzzzzz epos", "install package", "show folder", "files", "tar",
		"how to find the largest files in a directory", "find files without opening",
		// conversational openings in front of words the databases index
		"how do i list files", "i want to compress files", "command to find files"}
	vary := []func(string) string{
		strings.ToUpper,
		strings.Title,
		func(s string) string { return "  " + s },
		func(s string) string { return s + " \t" },
		func(s string) string { return strings.ReplaceAll(s, " ", "    ") },
		func(s string) string { return "\t" + strings.ToUpper(strings.ReplaceAll(s, " ", " \t ")) + "\n" },
		func(s string) string { return "\u3000" + strings.ReplaceAll(s, " ", "\u00a0 ") + " \u2003" },
		func(s string) string {
			rs := []rune(s)
			for i := range rs {
				if i%2 == 1 {
					rs[i] = []rune(strings.ToUpper(string(rs[i])))[0]
				}
			}
			return string(rs)
		},
	}
	stripEcho := regexp.MustCompile(`(?m)^Searching for: .*$`)
	idx := 0
	for _, dbn := range []string{"forty", "pool"} {
		cmds := uForty()
		if dbn == "pool" {
			// plus an entry made of the filler words of conversational openings (they are ordinary words to the index)
			cmds = append(uPool(), Cmd{Command: "wantdo --command", Description: "Do what you want: the command to do it, how you want", Keywords: []string{"want", "do", "command", "how"}})
		}
		for _, b := range bases {
			for vi, f := range vary {
				for fi, flags := range [][]string{{"--no-color"}, {"--no-color", "--format", "json", "-a"}, {"--no-color", "-a"}} {
					idx++
					// third flag set: the same under a Turkish locale (special-casing rules for I / i exist there)
					var extraEnv []string
					if fi == 2 {
						extraEnv = []string{"LC_ALL=tr_TR.UTF-8", "LANG=tr_TR.UTF-8", "LC_CTYPE=tr_TR.UTF-8"}
					}
					if !c.Mine(int64(idx)) {
						continue
					}
					if c.Expired() {
						return
					}
					env := newCLIEnv(filepath.Join(c.Scratch, "c20p"))
					dbPath := filepath.Join(env.Cwd, "db.yml")
					writeYAML(dbPath, cmds)
					args := append(append([]string{"-d", dbPath}, flags...), "--")
					r1 := env.run(bin, extraEnv, append(args, b)...)
					os.Remove(env.HistoryPath())
					r2 := env.run(bin, extraEnv, append(args, f(b))...)
					c.Rep.Evaluations += 2
					c.Count("cli_pairs", 1)
					o1 := stripEcho.ReplaceAllString(r1.Out, "")
					o2 := stripEcho.ReplaceAllString(r2.Out, "")
					// the "no commands found" message quotes the query as typed (case): compare case-insensitively there
					if strings.Contains(o1, "No commands found") {
						o1, o2 = strings.ToLower(o1), strings.ToLower(o2)
					}
					if o1 != o2 {
						c.Violate(lib.Violation{Key: fmt.Sprintf("cli-pair-differs:variant%d", vi), What: fmt.Sprintf("`wtf %q` and `wtf %q` print different results", b, f(b)),
							Case: c20Case{DB: dbSpec{Special: dbn}, Base: q(b), Spell: q(f(b)), Path: "cli"}, Observed: truncStr(o2, 800), Expected: truncStr(o1, 800)})
					} else if strings.Contains(r1.Out, "1.") || strings.Contains(r1.Out, "\"command\"") {
						c.Count("cli_pairs_with_results", 1)
					}
				}
			}
		}
	}
	// the `pipeline` sub-command takes its query straight from the command line (no validator in between)
	// the echo line quotes the query as typed (it may even contain line breaks): compare what follows it
	fromResults := func(s string) string {
		for _, m := range []string{"📋", "No pipeline commands"} {
			if i := strings.Index(s, m); i >= 0 {
				return s[i:]
			}
		}
		return s
	}
	// pipeline entries that hold the words of a query adjacent / apart / in different fields, so that their scores are close
	pipeDB := append(append([]Cmd{}, uPool()...),
		Cmd{Command: "cat app.log | grep error", Description: "log analysis of errors", Pipeline: true},
		Cmd{Command: "cat app.log | awk '{print $1}'", Description: "quick log analysis", Keywords: []string{"log"}, Pipeline: true},
		Cmd{Command: "grep -c error log | sort", Description: "analysis of the error log", Keywords: []string{"log", "analysis"}, Pipeline: true},
		Cmd{Command: "log-analysis --all | less", Description: "page through the analysis", Keywords: []string{"analysis"}, Pipeline: true},
		Cmd{Command: "tail -f log | grep analysis", Description: "follow a log and filter it", Keywords: []string{"log"}, Pipeline: true},
		Cmd{Command: "sort log | uniq -c", Description: "analysis: count repeated log lines", Keywords: []string{"count", "analysis", "log"}, Pipeline: true})
	for _, b := range []string{"count lines", "build install", "sort lines of files", "count matching lines in files", "grep", "log analysis", "analysis of the error log", "error log"} {
		for vi, f := range vary {
			idx++
			if !c.Mine(int64(idx)) {
				continue
			}
			if c.Expired() {
				return
			}
			env := newCLIEnv(filepath.Join(c.Scratch, "c20p"))
			dbPath := filepath.Join(env.Cwd, "db.yml")
			writeYAML(dbPath, pipeDB)
			r1 := env.run(bin, nil, "pipeline", "-d", dbPath, "--", b)
			r2 := env.run(bin, nil, "pipeline", "-d", dbPath, "--", f(b))
			c.Rep.Evaluations += 2
			c.Count("cli_pipeline_pairs", 1)
			o1 := fromResults(r1.Out)
			o2 := fromResults(r2.Out)
			if o1 != o2 {
				c.Violate(lib.Violation{Key: fmt.Sprintf("cli-pipeline-pair-differs:variant%d", vi), What: fmt.Sprintf("`wtf pipeline %q` and `wtf pipeline %q` print different results", b, f(b)),
					Case: c20Case{DB: dbSpec{Special: "pool"}, Base: q(b), Spell: q(f(b)), Path: "cli-pipeline"}, Observed: truncStr(o2, 800), Expected: truncStr(o1, 800)})
			} else if strings.Contains(r1.Out, "1.") {
				c.Count("cli_pipeline_pairs_with_results", 1)
			}
		}
	}
}

// c14Processes: the 'Searching for:' line of the CLI shows exactly the
// validated query; rejected queries are not searched.
func c14Processes(c *lib.Ctx) {
	bin := os.Getenv("VERIF_WTF")
	if bin == "" {
		c.Note("process form skipped: VERIF_WTF unset")
		return
	}
	var strs []string
	for i, a := range c14Atoms {
		if strings.Contains(a, "\x00") {
			continue
		}
		strs = append(strs, a, "git"+a+"commit", a+"files"+a)
		if i%3 == 0 {
			strs = append(strs, a+" git  "+a+a)
		}
	}
	strs = append(strs, strings.Repeat("a", 1000), strings.Repeat("a", 1001), strings.Repeat("é", 500), strings.Repeat("é", 501), strings.Repeat("\xff", 400)+"a")
	c14MultiArg(c, bin)
	for i, s := range strs {
		if !c.Mine(int64(i)) {
			continue
		}
		env := newCLIEnv(filepath.Join(c.Scratch, "c14p"))
		dbPath := filepath.Join(env.Cwd, "db.yml")
		writeYAML(dbPath, uPick(uPool(), []int{0, 4, 22}))
		r := env.run(bin, nil, "--no-color", "-d", dbPath, "--", s)
		c.Rep.Evaluations++
		c.Count("cli_cases", 1)
		want, err := validation.ValidateQuery(s)
		cs := c14Case{Query: fmt.Sprintf("%q", s)}
		if why := crashed(r); why != "" {
			c.Violate(lib.Violation{Key: "cli-crash", What: "wtf " + why, Case: cs})
			continue
		}
		has := strings.Contains(r.Out, "Searching for: ")
		switch {
		case err != nil && has:
			c.Violate(lib.Violation{Key: "cli-searched-rejected-query", What: "the CLI searched although the validator rejects the query", Case: cs, Observed: truncStr(r.Out, 300)})
		case err == nil && !strings.Contains(r.Out, "Searching for: "+want+"\n"):
			c.Violate(lib.Violation{Key: "cli-echo", What: fmt.Sprintf("the CLI's 'Searching for:' line does not show the validated query %q", want), Case: cs, Observed: truncStr(r.Out, 300)})
		}
	}
}

// c14MultiArg: a query given as several command-line arguments is the arguments joined by single
// blanks; acceptance (the 1000-byte limit, blankness, metacharacters) is decided on that whole query.
func c14MultiArg(c *lib.Ctx, bin string) {
	a := func(n int) string { return strings.Repeat("a", n) }
	vecs := [][]string{
		{"find", "large", "files"}, {"git", "", "commit"}, {"", "git"}, {" ", "x"}, {"compress", "\x01\x02", "directory"}, {"\x01", "\x02"}, {"a;", "b"}, {"a", "|", "b"},
		{a(602), a(602)}, {a(500), a(500)}, {a(500), a(499)}, {a(400), a(400), a(199)}, {a(400), a(400), a(198)}, {a(999), "b"}, {a(998), "b"}, {a(1000), ""}, {a(334), a(333), a(333)},
		{strings.Repeat("\u00e9", 250), strings.Repeat("\u00e9", 250)}, {strings.Repeat("\u00e9", 250), strings.Repeat("\u00e9", 249)},
	}
	for i, v := range vecs {
		if !c.Mine(int64(i)) {
			continue
		}
		env := newCLIEnv(filepath.Join(c.Scratch, "c14m"))
		dbPath := filepath.Join(env.Cwd, "db.yml")
		writeYAML(dbPath, uPick(uPool(), []int{0, 4, 22}))
		r := env.run(bin, nil, append([]string{"--no-color", "-d", dbPath, "--"}, v...)...)
		c.Rep.Evaluations++
		c.Count("cli_multi_argument_cases", 1)
		joined := strings.Join(v, " ")
		want, err := validation.ValidateQuery(joined)
		var lens []int
		for _, x := range v {
			lens = append(lens, len(x))
		}
		cs := c14Case{Query: fmt.Sprintf("%q", truncStr(joined, 80)), Then: fmt.Sprintf("argument lengths %v", lens)}
		if why := crashed(r); why != "" {
			c.Violate(lib.Violation{Key: "cli-crash", What: "wtf " + why, Case: cs})
			continue
		}
		has := strings.Contains(r.Out, "Searching for: ")
		switch {
		case err != nil && has:
			c.Violate(lib.Violation{Key: "cli-searched-rejected-query:multi-argument", What: fmt.Sprintf("arguments of %v bytes: the CLI searched although the query they form (%d bytes) must be rejected", lens, len(joined)), Case: cs, Observed: truncStr(r.Out, 200)})
		case err == nil && !strings.Contains(r.Out, "Searching for: "+want+"\n"):
			c.Violate(lib.Violation{Key: "cli-echo:multi-argument", What: fmt.Sprintf("arguments of %v bytes: the CLI does not search for the validated form %q of the query they form", lens, truncStr(want, 60)), Case: cs, Observed: truncStr(r.Out, 200)})
		}
	}
}

// c01Processes: the number of entries the CLI prints never exceeds the limit
// in force on the typo-fallback and last-resort recovery paths (the recovery
// list is truncated inside the CLI, so only the process shows it).
func c01Processes(c *lib.Ctx) {
	bin := os.Getenv("VERIF_WTF")
	if bin == "" {
		c.Note("process form skipped: VERIF_WTF unset")
		return
	}
	dbs := c17DBs()
	i := 0
	for _, db := range dbs[:3] {
		for _, qy := range []string{"zzzzzzzzzz epos", "gt cmmit", "files", "ush", "git", "zz it"} {
			for _, lim := range []string{"", "1", "2", "3", "100"} {
				for _, f := range []string{"", "json"} {
					i++
					if !c.Mine(int64(i)) {
						continue
					}
					v, obs := c17Search(c, bin, c17SearchSpec{DB: db, Query: qy, Limit: lim, Format: f, Color: "--no-color", Platform: "all"}, "")
					c.Rep.Evaluations++
					c.Count("cli_runs", 1)
					if v != nil {
						v.Key = "cli:" + v.Key
						c.Violate(*v)
					} else if strings.HasPrefix(obs, "recovery") {
						c.Count("cli_recovery_answered", 1)
					}
				}
			}
		}
	}
}

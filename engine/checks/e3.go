package checks

import (
	"fmt"
	"time"

	"github.com/Vedant9500/WTF/internal/zzvrt/vsched"
)

// Engine E3: stateless schedule exploration with iterative context bounding
// (Musuvathi & Qadeer). An execution is determined by the list of choices at
// its scheduling points; choice 0 = keep running the current thread (or the
// lowest enabled id when it cannot continue); any other choice while the
// running thread is still enabled costs one preemption.

type schedExec struct {
	Points  []vsched.Point
	Choices []int
	Sched   *vsched.Sched
}

func (x *schedExec) preemptionsBefore(i int) int {
	n := 0
	for k := 0; k < i && k < len(x.Points); k++ {
		if x.Points[k].RunningEnabled && x.Choices[k] != 0 {
			n++
		}
	}
	return n
}

type schedExplorer struct {
	Bound      int
	MaxExecs   int64
	Execs      int64
	Points     int64
	Capped     bool
	Diverged   string
	Deadlocks  int64
	MaxPreempt int
	// Stuck: an execution did not finish within the watchdog time: some thread blocked on a primitive the
	// scheduler does not control (a channel, a real lock). Exploration cannot continue in this process.
	Stuck   bool
	Spawned int // most goroutines started by the code under test in one execution
	// Body builds the thread bodies of one fresh execution and a function
	// that checks it afterwards (called with the finished execution).
	Body func() (threads []func(), check func(x *schedExec))
}

func (e *schedExplorer) run(prefix []int) *schedExec {
	threads, check := e.Body()
	x := &schedExec{}
	if e.Stuck {
		return x
	}
	done := make(chan *vsched.Sched, 1)
	go func() {
		done <- vsched.Run(func(i int, p *vsched.Point) int {
			c := 0
			if i < len(prefix) {
				c = prefix[i]
				if c >= len(p.Enabled) {
					if e.Diverged == "" {
						e.Diverged = fmt.Sprintf("replay divergence at point %d: choice %d of %d enabled", i, c, len(p.Enabled))
					}
					c = 0
				}
			}
			return c
		}, threads...)
	}()
	var s *vsched.Sched
	select {
	case s = <-done:
	case <-time.After(40 * time.Second):
		e.Stuck = true
		return x
	}
	if s.Spawned > e.Spawned {
		e.Spawned = s.Spawned
	}
	x.Sched = s
	x.Points = s.Trace
	x.Choices = make([]int, len(s.Trace))
	for i, p := range s.Trace {
		x.Choices[i] = p.Chosen
	}
	e.Execs++
	e.Points += int64(len(x.Points))
	if s.Deadlock {
		e.Deadlocks++
	}
	check(x)
	return x
}

// Explore runs the DFS from the empty prefix.
func (e *schedExplorer) Explore() {
	e.explore(nil)
}

func (e *schedExplorer) explore(prefix []int) {
	if e.MaxExecs > 0 && e.Execs >= e.MaxExecs {
		e.Capped = true
		return
	}
	x := e.run(prefix)
	if e.Stuck {
		return
	}
	for i := len(prefix); i < len(x.Points); i++ {
		p := x.Points[i]
		if len(p.Enabled) < 2 {
			continue
		}
		cost := x.preemptionsBefore(i)
		if p.RunningEnabled {
			cost++
		}
		if cost > e.Bound {
			continue
		}
		if cost > e.MaxPreempt {
			e.MaxPreempt = cost
		}
		for alt := 1; alt < len(p.Enabled); alt++ {
			np := append(append([]int{}, x.Choices[:i]...), alt)
			e.explore(np)
			if e.Capped || e.Stuck {
				return
			}
		}
	}
}

// schedDescribe renders a schedule compactly: thread ids in the order they ran.
func schedDescribe(x *schedExec) string {
	s := ""
	last := -2
	for i, p := range x.Points {
		t := p.Enabled[x.Choices[i]]
		if t != last {
			s += fmt.Sprintf("T%d@%s ", t, p.Op)
			last = t
		}
	}
	return s
}

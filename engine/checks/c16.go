package checks

import (
	"encoding/json"
	"fmt"
	"os"
	"path/filepath"
	"sort"
	"strconv"
	"strings"
	"time"

	"github.com/Vedant9500/WTF/internal/history"
	"github.com/Vedant9500/WTF/internal/zzvrt/vtime"
	"github.com/Vedant9500/WTF/zzverif/lib"
)

// C16 — search history is a bounded, ordered, faithfully persisted log.
// E1: all operation sequences of length d over {add(x|y|z), save, load(same
// max), load(other max), clear} x configured max {1,2,3} against a reference
// log, every view compared after every step.  E1b: 10 wide histories (1..150 distinct queries + a repeat of the first, maximum 100, saved and loaded) against the same reference; E2: every history file built
// from <=3 fields of a JSON field alphabet (+ specials and every byte prefix of
// a valid file) is loaded, then four searches are recorded, saved, re-loaded.

type histOp struct {
	Kind string `json:"op"` // add save load loadother clear
	Q    string `json:"q,omitempty"`
}

type hEnt struct {
	q   string
	ts  time.Time
	rc  int
	ctx string
	dur int64
}

type histCase struct {
	Max  int      `json:"max,omitempty"`
	Ops  []histOp `json:"ops,omitempty"`
	File *string  `json:"file_quoted,omitempty"`
}

func histAlphabet() []histOp {
	// "X " differs from "x" only in case and a trailing blank: a different query, not a repetition
	return []histOp{{"add", "x"}, {"add", "X "}, {"add", "z"}, {"save", ""}, {"load", ""}, {"loadother", ""}, {"clear", ""}, {"reload", ""}}
}

func histViews(sh *history.SearchHistory, m []hEnt, max int) string {
	// entries
	if len(sh.Entries) != len(m) {
		return fmt.Sprintf("history holds %d entries, reference log %d", len(sh.Entries), len(m))
	}
	for i, e := range sh.Entries {
		w := m[i]
		if e.Query != w.q || !e.Timestamp.Equal(w.ts) || e.ResultsCount != w.rc || e.Context != w.ctx || e.Duration != w.dur {
			return fmt.Sprintf("entry %d is %+v, reference %+v", i, e, w)
		}
		if i > 0 && e.Timestamp.Before(sh.Entries[i-1].Timestamp) {
			return fmt.Sprintf("entries not chronological at %d", i)
		}
	}
	if sh.MaxSize > 0 && len(sh.Entries) > sh.MaxSize {
		return fmt.Sprintf("%d entries exceed the maximum %d", len(sh.Entries), sh.MaxSize)
	}
	// recent
	for _, k := range []int{0, 1, 2, 5} {
		got := sh.GetRecentQueries(k)
		lim := k
		if lim <= 0 {
			lim = 10
		}
		var want []string
		seen := map[string]bool{}
		for i := len(m) - 1; i >= 0 && len(want) < lim; i-- {
			if !seen[m[i].q] {
				seen[m[i].q] = true
				want = append(want, m[i].q)
			}
		}
		if strings.Join(got, "\x00") != strings.Join(want, "\x00") {
			return fmt.Sprintf("GetRecentQueries(%d)=%v want %v", k, got, want)
		}
	}
	// top
	top := sh.GetTopQueries(1000)
	sum := 0
	freq := map[string]int{}
	last := map[string]time.Time{}
	for _, e := range m {
		freq[e.q]++
		if e.ts.After(last[e.q]) {
			last[e.q] = e.ts
		}
	}
	for i, t := range top {
		sum += t.Count
		if freq[t.Query] != t.Count || !last[t.Query].Equal(t.LastUsed) {
			return fmt.Sprintf("GetTopQueries entry %+v disagrees with the log (count %d)", t, freq[t.Query])
		}
		if i > 0 && (top[i-1].Count < t.Count || (top[i-1].Count == t.Count && top[i-1].LastUsed.Before(t.LastUsed))) {
			return fmt.Sprintf("GetTopQueries not ordered at %d: %+v", i, top)
		}
	}
	if sum != len(m) || len(top) != len(freq) {
		return fmt.Sprintf("GetTopQueries counts sum to %d over %d queries, log has %d entries over %d queries", sum, len(top), len(m), len(freq))
	}
	// stats
	st := sh.GetStats()
	if st.TotalSearches != len(m) || st.UniqueQueries != len(freq) {
		return fmt.Sprintf("GetStats %+v, log has %d entries / %d unique", st, len(m), len(freq))
	}
	if len(m) > 0 {
		tot, totd := 0, int64(0)
		for _, e := range m {
			tot += e.rc
			totd += e.dur
		}
		if !st.OldestEntry.Equal(m[0].ts) || !st.NewestEntry.Equal(m[len(m)-1].ts) || st.AvgResultsPerSearch != float64(tot)/float64(len(m)) {
			return fmt.Sprintf("GetStats %+v disagrees with the log", st)
		}
		if totd > 0 && st.AvgSearchDuration != float64(totd)/float64(len(m)) {
			return fmt.Sprintf("GetStats duration %v disagrees with the log", st.AvgSearchDuration)
		}
	}
	// pattern view
	pm := sh.GetEntriesByPattern("X")
	cnt := 0
	for _, e := range m {
		if strings.Contains(strings.ToLower(e.q), "x") {
			cnt++
		}
	}
	if len(pm) != cnt {
		return fmt.Sprintf("GetEntriesByPattern found %d, log has %d", len(pm), cnt)
	}
	for i := 1; i < len(pm); i++ {
		if pm[i].Timestamp.After(pm[i-1].Timestamp) {
			return "GetEntriesByPattern not newest-first"
		}
	}
	return ""
}

// histWide: many distinct queries (the views have built-in defaults of 10): n distinct adds, then one repeat
// of an old query, on a history of maximum 100, saved and loaded; every view against the reference log.
func histWide(dir string, n int) *lib.Violation {
	vtime.Enable()
	vtime.SetAutoTick(time.Millisecond)
	defer vtime.Disable()
	path := filepath.Join(dir, "hw.json")
	os.Remove(path)
	defer os.Remove(path)
	sh := history.NewSearchHistory(path, 100)
	var m []hEnt
	add := func(q string, k int) {
		before := vtime.Base.Add(vtime.Offset())
		sh.AddEntry(q, k, "c", time.Duration(k+1)*time.Millisecond)
		e := hEnt{q, before, k, "c", int64(k + 1)}
		if len(m) > 0 && m[len(m)-1].q == q {
			m[len(m)-1] = e
		} else {
			m = append(m, e)
			if len(m) > 100 {
				m = m[len(m)-100:]
			}
		}
	}
	for i := 0; i < n; i++ {
		add(fmt.Sprintf("query %03d", i), i)
	}
	add("query 000", n)
	fail := func(what string) *lib.Violation {
		return &lib.Violation{Key: "history-wide", What: fmt.Sprintf("after %d distinct queries and a repeat of the first: %s", n, what), Case: histCase{Max: 100, Ops: []histOp{{"wide", fmt.Sprint(n)}}}}
	}
	if bad := histViews(sh, m, 100); bad != "" {
		return fail(bad)
	}
	if err := sh.Save(); err != nil {
		return fail("Save failed: " + err.Error())
	}
	sh2 := history.NewSearchHistory(path, 100)
	if err := sh2.Load(); err != nil {
		return fail("Load failed: " + err.Error())
	}
	if bad := histViews(sh2, m, 100); bad != "" {
		return fail("after save and load: " + bad)
	}
	return nil
}

func runHistSeq(dir string, cs histCase) (v *lib.Violation, obs string) {
	vtime.Enable()
	vtime.SetAutoTick(time.Millisecond)
	defer vtime.Disable()
	path := filepath.Join(dir, "h.json")
	os.Remove(path)
	defer os.Remove(path)
	sh := history.NewSearchHistory(path, cs.Max)
	var m []hEnt         // reference log
	var persisted []hEnt // reference file content
	persistedMax := 0
	fileExists := false
	maxInForce := cs.Max
	n := 0
	fail := func(i int, what string) *lib.Violation {
		return &lib.Violation{Key: "history-model:" + cs.Ops[i].Kind, What: what,
			Case: histCase{Max: cs.Max, Ops: cs.Ops[:i+1]}, Observed: what, Expected: "agreement with the reference log"}
	}
	for i, op := range cs.Ops {
		var panicked any
		func() {
			defer func() { panicked = recover() }()
			switch op.Kind {
			case "add":
				n++
				before := vtime.Base.Add(vtime.Offset())
				// "z" is recorded without context and duration: the file omits those fields for it
				ctx, dur := "ctx"+op.Q, int64(n)
				if op.Q == "z" {
					ctx, dur = "", 0
				}
				sh.AddEntry(op.Q, n, ctx, time.Duration(dur)*time.Millisecond)
				e := hEnt{op.Q, before, n, ctx, dur}
				if len(m) > 0 && m[len(m)-1].q == op.Q {
					m[len(m)-1] = e
				} else {
					m = append(m, e)
					if len(m) > maxInForce {
						m = m[len(m)-maxInForce:]
					}
				}
			case "save":
				if err := sh.Save(); err != nil {
					panic(fmt.Sprintf("Save failed: %v", err))
				}
				persisted = append([]hEnt(nil), m...)
				persistedMax = maxInForce
				fileExists = true
			case "load", "loadother", "reload":
				cfg := cs.Max
				if op.Kind == "loadother" {
					cfg = cs.Max%3 + 1
				}
				if op.Kind == "reload" && fileExists {
					// Load on the object in use (its in-memory log may differ from the file): same outcome as a fresh load
					cfg = maxInForce
				} else {
					sh = history.NewSearchHistory(path, cfg)
				}
				if err := sh.Load(); err != nil {
					panic(fmt.Sprintf("Load failed: %v", err))
				}
				if fileExists {
					// maximum in force afterwards: the file's or the configured one
					if sh.MaxSize != persistedMax && sh.MaxSize != cfg {
						panic(fmt.Sprintf("after Load the maximum is %d (file %d, configured %d)", sh.MaxSize, persistedMax, cfg))
					}
					maxInForce = sh.MaxSize
					m = append([]hEnt(nil), persisted...)
					if maxInForce > 0 && len(m) > maxInForce {
						m = m[len(m)-maxInForce:]
					}
				} else {
					maxInForce = cfg
					m = nil
				}
			case "clear":
				if err := sh.Clear(); err != nil {
					panic(fmt.Sprintf("Clear failed: %v", err))
				}
				m = nil
				persisted = nil
				persistedMax = maxInForce
				fileExists = true
			}
		}()
		if panicked != nil {
			return fail(i, fmt.Sprintf("%s: %v", op.Kind, panicked)), obs
		}
		if bad := histViews(sh, m, maxInForce); bad != "" {
			return fail(i, "after "+op.Kind+": "+bad), obs
		}
		obs += fmt.Sprintf("%s%s:%d;", op.Kind, op.Q, len(sh.Entries))
	}
	return nil, obs
}

// ---------------------------------------------------------------- file alphabet

const hE1 = `{"query":"q1","timestamp":"2030-01-01T00:00:00Z","results_count":1}`
const hE2 = `{"query":"q2","timestamp":"2030-01-01T00:00:01Z","results_count":2,"context":"c","duration":3}`
const hE3 = `{"query":"q3","timestamp":"2030-01-01T00:00:02.5Z","results_count":0}`

func histFields() []string {
	var many []string
	for i := 0; i < 150; i++ {
		many = append(many, fmt.Sprintf(`{"query":"m%d","timestamp":"2030-01-01T00:%02d:%02dZ","results_count":%d}`, i, i/60, i%60, i))
	}
	return []string{
		`"max_size":0`, `"max_size":-5`, `"max_size":2`, `"max_size":1e9`, `"max_size":null`, `"max_size":"3"`,
		`"max_size":2.5`, `"max_size":100`, `"max_size":9223372036854775807`, `"max_size":-9223372036854775808`, `"max_size":1`,
		`"entries":null`, `"entries":[]`, `"entries":[` + hE1 + `]`, `"entries":[` + hE1 + `,` + hE2 + `,` + hE3 + `]`,
		`"entries":[` + strings.Join(many, ",") + `]`, `"entries":{}`, `"entries":[null]`, `"entries":[{"query":5}]`,
		`"entries":[{"query":"t","timestamp":"bad"}]`, `"entries":[` + hE1 + `,` + hE1 + `]`,
		`"extra":1`, `"MAX_SIZE":0`, `"Entries":null`, `"entries":[{"query":"n3","timestamp":"2030-01-01T00:00:00Z"}]`,
	}
}

func histSpecialFiles() []string {
	valid := `{"entries":[` + hE1 + `,` + hE2 + `,` + hE3 + `],"max_size":100}`
	out := []string{"", " ", "\n", "null", "[]", "{", "}", `{"entries":[`, "\xff\xfe", `"str"`, "0", "{}{}", "\ufeff{}", "{}", `{"entries":[],"max_size":0}`,
		`{"max_size":0,"entries":[` + hE1 + `]}`, `{"max_size":-1}`, `{"max_size":0}x`, `{"max_size":-3,"entries":"oops"}`, `{"max_size":-3,"entries":[{"query":[]}]}`}
	for i := 0; i <= len(valid); i++ {
		out = append(out, valid[:i])
	}
	return out
}

func runHistFile(dir string, content string) (v *lib.Violation, obs string) {
	vtime.Enable()
	vtime.SetAutoTick(time.Millisecond)
	defer vtime.Disable()
	path := filepath.Join(dir, "hf.json")
	defer os.Remove(path)
	if err := os.WriteFile(path, []byte(content), 0o644); err != nil {
		return nil, "io"
	}
	q := fmt.Sprintf("%q", content)
	if len(q) > 400 {
		q = q[:400] + `…"`
	}
	qq := strconv.Quote(content)
	cs := histCase{File: &qq}
	fail := func(key, what string) *lib.Violation {
		return &lib.Violation{Key: key, What: what, Case: cs, Observed: what}
	}
	var panicked any
	var bad string
	func() {
		defer func() { panicked = recover() }()
		sh := history.NewSearchHistory(path, 100)
		lerr := sh.Load()
		obs = fmt.Sprintf("load_err=%v n=%d max=%d;", lerr != nil, len(sh.Entries), sh.MaxSize)
		// maximum in force: the one the object reports, else the configured one
		bound := sh.MaxSize
		if bound <= 0 {
			bound = 100
		}
		if len(sh.Entries) > bound {
			bad = fmt.Sprintf("after Load the history holds %d entries, maximum %d", len(sh.Entries), bound)
			return
		}
		// a file that decodes holds a log: what is kept of it must be its most recent entries, in order
		var ref history.SearchHistory
		if lerr == nil && json.Unmarshal([]byte(content), &ref) == nil {
			keep := ref.Entries
			if len(keep) > bound {
				keep = keep[len(keep)-bound:]
			}
			if len(keep) != len(sh.Entries) {
				bad = fmt.Sprintf("the file holds %d entries (maximum in force %d); after Load the history holds %d", len(ref.Entries), bound, len(sh.Entries))
				return
			}
			for i := range keep {
				if keep[i].Query != sh.Entries[i].Query || !keep[i].Timestamp.Equal(sh.Entries[i].Timestamp) {
					bad = fmt.Sprintf("after Load entry %d is %q; the most recent %d entries of the file start at %q (older entries kept, newer ones dropped)", i, sh.Entries[i].Query, len(keep), keep[0].Query)
					return
				}
			}
			if len(ref.Entries) > bound {
				obs += "trimmed;"
			}
		}
		// the search command ignores the Load error and records the search
		prev := len(sh.Entries)
		lastQ := ""
		if prev > 0 {
			lastQ = sh.Entries[prev-1].Query
		}
		sh.AddEntry("n1", 1, "", time.Millisecond)
		sh.AddEntry("n1", 2, "", time.Millisecond)
		sh.AddEntry("n2", 3, "", time.Millisecond)
		sh.AddEntry("n3", 4, "", time.Millisecond)
		want := prev + 3
		if lastQ == "n1" {
			want--
		}
		if sh.MaxSize > 0 {
			bound = sh.MaxSize
		}
		if want > bound {
			want = bound
		}
		if len(sh.Entries) != want || sh.Entries[len(sh.Entries)-1].Query != "n3" {
			bad = fmt.Sprintf("after recording n1,n1,n2,n3 on %d loaded entries (max %d) the history holds %d entries", prev, bound, len(sh.Entries))
			return
		}
		rq := sh.GetRecentQueries(3)
		if len(rq) == 0 || rq[0] != "n3" {
			bad = fmt.Sprintf("recent queries %v do not start with the newest", rq)
			return
		}
		sum := 0
		for _, t := range sh.GetTopQueries(100000) {
			sum += t.Count
		}
		if sum != len(sh.Entries) {
			bad = fmt.Sprintf("top-query counts sum to %d, history holds %d", sum, len(sh.Entries))
			return
		}
		_ = sh.GetStats()
		if err := sh.Save(); err != nil {
			bad = "Save failed: " + err.Error()
			return
		}
		sh2 := history.NewSearchHistory(path, 100)
		if err := sh2.Load(); err != nil {
			bad = "re-Load of a saved history failed: " + err.Error()
			return
		}
		if len(sh2.Entries) != len(sh.Entries) {
			bad = fmt.Sprintf("saved %d entries, re-loaded %d", len(sh.Entries), len(sh2.Entries))
			return
		}
		for i := range sh.Entries {
			a, b := sh.Entries[i], sh2.Entries[i]
			if a.Query != b.Query || !a.Timestamp.Equal(b.Timestamp) || a.ResultsCount != b.ResultsCount || a.Context != b.Context || a.Duration != b.Duration {
				bad = fmt.Sprintf("entry %d changed across save/load: %+v vs %+v", i, a, b)
				return
			}
		}
		obs += fmt.Sprintf("final=%d", len(sh.Entries))
	}()
	if panicked != nil {
		return fail("history-file:panic", fmt.Sprintf("file %s: panic: %v", q, panicked)), obs
	}
	if bad != "" {
		key := "history-file:invariant"
		if strings.Contains(bad, "maximum") {
			key = "history-file:maximum"
		}
		return fail(key, fmt.Sprintf("file %s: %s", q, bad)), obs
	}
	return nil, obs
}

func c16Run(c *lib.Ctx) {
	if c.Shard == 0 {
		for _, n := range []int{1, 9, 10, 11, 12, 25, 99, 100, 101, 150} {
			c.Rep.Evaluations++
			c.Count("wide_histories", 1)
			if v := histWide(c.Scratch, n); v != nil {
				c.Violate(*v)
			}
		}
	}
	alpha := histAlphabet()
	depth := 6
	if c.Thorough() {
		depth = 8
	}
	n := int64(len(alpha))
	idx := int64(0)
	self := 0
	distinct := map[string]bool{}
	for _, max := range []int{1, 2, 3} {
		total := int64(1)
		for i := 0; i < depth; i++ {
			total *= n
		}
		ops := make([]histOp, depth)
		for k := int64(0); k < total; k++ {
			idx++
			if !c.Mine(idx) {
				continue
			}
			if idx%2048 == int64(c.Shard) && c.Expired() {
				return
			}
			x := k
			for i := depth - 1; i >= 0; i-- {
				ops[i] = alpha[x%n]
				x /= n
			}
			cs := histCase{Max: max, Ops: ops}
			v, obs := runHistSeq(c.Scratch, cs)
			c.Rep.Evaluations++
			c.Rep.Transitions += int64(depth)
			if self < 64 {
				self++
				if _, o2 := runHistSeq(c.Scratch, cs); o2 != obs {
					c.Fail("harness nondeterminism in history sequence %v", ops)
					return
				}
			}
			if v != nil {
				cc := v.Case.(histCase)
				cc.Ops = append([]histOp(nil), cc.Ops...)
				v.Case = cc
				c.Violate(*v)
			} else {
				distinct[obs] = true
			}
			if c.Rep.Evaluations%30000 == 3 {
				c.Sample(map[string]any{"max": max, "ops": fmt.Sprint(ops), "sizes": obs})
			}
		}
	}
	c.Count("sequence_cases", c.Rep.Evaluations)
	// files
	fields := histFields()
	var files []string
	files = append(files, histSpecialFiles()...)
	nf := len(fields)
	for _, a := range fields {
		files = append(files, "{"+a+"}")
	}
	for i := 0; i < nf; i++ {
		for j := 0; j < nf; j++ {
			files = append(files, "{"+fields[i]+","+fields[j]+"}")
		}
	}
	for i := 0; i < nf; i++ {
		for j := 0; j < nf; j++ {
			for k := 0; k < nf; k++ {
				if !c.Thorough() && (i+j+k)%3 != 0 { // quick: a third of the triples, all pairs
					continue
				}
				files = append(files, "{"+fields[i]+","+fields[j]+","+fields[k]+"}")
			}
		}
	}
	fobs := map[string]bool{}
	for i, f := range files {
		if !c.Mine(int64(i)) {
			continue
		}
		if i%256 == c.Shard && c.Expired() {
			return
		}
		v, obs := runHistFile(c.Scratch, f)
		c.Rep.Evaluations++
		c.Count("file_cases", 1)
		if v != nil {
			c.Violate(*v)
		}
		fobs[obs] = true
		if strings.HasPrefix(obs, "load_err=true") {
			c.Count("files_rejected_by_load", 1)
		} else {
			c.Count("files_loaded", 1)
		}
	}
	c.Rep.Nontrivial = int64(len(distinct) + len(fobs))
	var keys []string
	for k := range fobs {
		keys = append(keys, k)
	}
	sort.Strings(keys)
	if len(keys) > 0 && c.Shard == 0 {
		c.Sample(map[string]any{"file_outcomes_seen": keys[:min(len(keys), 6)]})
	}
}

func init() {
	lib.Register(&lib.Check{
		ID: "C16", Level: "model_checking",
		Rule:      "E1: every operation sequence of length 6 (thorough 8) over {add \"x\"|\"X \"|\"z\" (the second differs from the first only in case and a trailing blank: a different query), save, load(same configured max), load(other configured max), Load on the object in use, clear; the third query is recorded without context and duration, so the file omits those fields} for configured max 1,2,3 on the real SearchHistory under a virtual clock (1 ms per reading), entries and the recent/top/stats/pattern views compared with a reference log after every step; E2: every history file made of <=3 fields from a 25-field JSON alphabet (quick: all singles and pairs, a third of the triples) plus specials and every byte prefix of a valid file: Load, record n1,n1,n2,n3, views, Save, re-Load; distinct_nontrivial = distinct observation strings (per-step sizes for sequences; load outcome/size/max for files), per worker, summed",
		Assume:    []string{"clock owned through vtime", "files on tmpfs"},
		QuickSecs: 90, ThorSecs: 900,
		Run: c16Run,
		Replay: func(c *lib.Ctx, raw json.RawMessage) []lib.Violation {
			var cs histCase
			if json.Unmarshal(raw, &cs) != nil {
				return nil
			}
			var v *lib.Violation
			if cs.File != nil {
				content, err := strconv.Unquote(*cs.File)
				if err != nil {
					return nil
				}
				v, _ = runHistFile(c.Scratch, content)
			} else if len(cs.Ops) == 1 && cs.Ops[0].Kind == "wide" {
				n, _ := strconv.Atoi(cs.Ops[0].Q)
				v = histWide(c.Scratch, n)
			} else {
				v, _ = runHistSeq(c.Scratch, cs)
			}
			if v != nil {
				return []lib.Violation{*v}
			}
			return nil
		},
		Finish: func(m *lib.Report, tier string) string {
			if m.Exhaustive && (m.Counters["files_loaded"] < 100 || m.Counters["files_rejected_by_load"] < 100) {
				return "vacuous: file classes not populated"
			}
			return ""
		},
	})
}

package checks

import (
	"encoding/json"
	"fmt"
	"path/filepath"
	"strconv"
	"strings"

	"github.com/Vedant9500/WTF/internal/constants"
	"github.com/Vedant9500/WTF/internal/database"
	"github.com/Vedant9500/WTF/internal/embedding"
	"github.com/Vedant9500/WTF/internal/recovery"
	"github.com/Vedant9500/WTF/zzverif/lib"
)

// C01 — every search entry point returns a bounded, ranked, duplicate-free
// list of real entries.  Engine E2: (database, query, options) universe, each
// case through SearchUniversal, Search, SearchWithPipelineOptions, the cached
// wrapper (miss then hit), the monitored wrapper and the recovery searches.

// dbSpec names a database of the universe.
type dbSpec struct {
	Pool    []int  `json:"pool,omitempty"`    // indices into uPool()
	Special string `json:"special,omitempty"` // empty | identical12 | forty | shipped
	// Personal, when set, is a notebook (indices into uTiePool()) merged in by LoadDatabaseWithPersonal.
	Personal []int `json:"personal,omitempty"`
}

// uTiePool: distinct commands that score equally for "deploy" / "release".
func uTiePool() []Cmd {
	var out []Cmd
	for _, n := range []string{"alpha", "beta", "gamma", "delta", "epsilon", "zeta"} {
		out = append(out, Cmd{Command: "deploy " + n, Description: "Deploy and release the app", Keywords: []string{"deploy", "release"}})
	}
	return out
}

func (s dbSpec) String() string {
	if s.Special != "" {
		return s.Special
	}
	if s.Personal != nil {
		return fmt.Sprintf("%v+notebook%v", s.Pool, s.Personal)
	}
	return fmt.Sprint(s.Pool)
}

func (s dbSpec) cmds() []Cmd {
	switch s.Special {
	case "empty":
		return nil
	case "identical12":
		return uIdentical(12)
	case "forty":
		return uForty()
	case "shortdocs":
		// many short entries with overlapping vocabulary: long queries have more vocabulary words
		// than a matching entry has, with 3+ shared terms of different weights (order-sensitive sums)
		mk := func(c, d string, k ...string) Cmd { return Cmd{Command: c, Description: d, Keywords: k} }
		return []Cmd{
			mk("zstd -q", "compress logs fast", "rotate"), mk("savelog", "rotate nightly backup logs"), mk("logrotate -f", "rotate compress nginx logs", "rotation"),
			mk("gzip -9", "compress files keep timestamps", "compress", "archive"), mk("tar cf", "archive many files into one tarball", "archive", "backup"),
			mk("cron -l", "schedule nightly backup cleanup jobs", "nightly"), mk("rsync -a", "sync directories to remote backup host", "sync", "backup"),
			mk("tail -f", "follow access logs", "logs"), mk("find -mtime", "locate old files for cleanup", "old", "cleanup"), mk("du -sh", "disk usage of directory", "disk"),
			mk("nginx -t", "test nginx configuration", "nginx", "config"), mk("journalctl -u", "query systemd journal logs", "journal", "logs"),
			mk("logrotate -d", "compress rotate nginx logs nightly", "logs"), mk("backup.sh", "nightly backup of logs and files", "backup", "nightly", "logs"),
		}
	case "wide3100":
		// 3,100 entries sharing a few words, so that the posting lists of a two-word query hold thousands of
		// entries (any per-query budget on candidates or accumulators is in play): 'alpha' in 1,800 of them,
		// 'beta' in 1,400, 'gamma' in 700, overlapping
		var out []Cmd
		for i := 0; i < 3100; i++ {
			d := "entry"
			if i < 1800 {
				d += " alpha"
			}
			if i >= 1300 && i < 2700 {
				d += " beta"
			}
			if i%4 == 1 || i >= 2900 {
				d += " gamma"
			}
			out = append(out, Cmd{Command: fmt.Sprintf("wide%04d run", i), Description: d, Keywords: []string{fmt.Sprintf("k%d", i%7)}})
		}
		return out
	case "sugties":
		// words with equal fuzzy quality for "tar": suggestion ties
		return []Cmd{{Command: "tart x", Description: "tarp tars"}, {Command: "tarn y", Description: "tare tarq"}, {Command: "tark z", Description: "tarw taru"}}
	}
	return uPick(uPool(), s.Pool)
}

func (s dbSpec) build(c *lib.Ctx) *database.Database {
	if s.Special == "shipped" {
		db, err := database.LoadDatabase(c.Repo + "/assets/commands.yml")
		if err != nil {
			c.Fail("shipped database does not load: %v", err)
			return &database.Database{}
		}
		return db
	}
	if s.Special == "embedded" {
		// six pool entries with an in-memory embedding index attached (overlay setter): the vocabulary lacks the
		// word "file" but has three longer forms of it
		db := uMustDB(c, uPick(uPool(), []int{0, 4, 5, 6, 8, 22}))
		idx := &embedding.Index{Dimension: 3, WordVectors: map[string][]float32{
			"compress": {1, 0, 0}, "files": {0, 1, 0}, "filed": {0.6, 0.1, 0.45}, "filer": {0.1, 0.6, 0.45}, "git": {0.7, 0.7, 0}, "list": {0.1, 0.2, 0.9}, "tar": {-1, 0, 0},
		}}
		rows := [][]float32{{1, 0, 0}, {0, 1, 0}, {0.7, 0.7, 0}, {0.2, 0.9, 0.1}, {0.1, 0.2, 0.9}, {0.5, 0.5, 0.5}}
		for i := range db.Commands {
			idx.CmdEmbeddings = append(idx.CmdEmbeddings, rows[i%len(rows)])
		}
		accSetEmbedding(db, idx)
		return db
	}
	if s.Personal != nil {
		mainP, persP := filepath.Join(c.Scratch, "main.yml"), filepath.Join(c.Scratch, "notebook.yml")
		writeYAML(mainP, s.cmds())
		writeYAML(persP, uPick(uTiePool(), s.Personal))
		db, err := database.LoadDatabaseWithPersonal(mainP, persP)
		if err != nil {
			c.Fail("main+notebook do not load: %v", err)
			return &database.Database{}
		}
		return db
	}
	return uMustDB(c, s.cmds())
}

// sCase is one (database, query, options, entry point) case.
type sCase struct {
	DB    dbSpec `json:"db"`
	Query string `json:"query_quoted"`
	Opts  Opts   `json:"options"`
	Entry string `json:"entry"`
	Host  string `json:"host,omitempty"`
	// Toggle: the request was made directly after the same request with NoCrossPlatform flipped (and, before that,
	// after the request itself), on the same database object (C04)
	Toggle bool `json:"directly_after_the_same_request_with_no_cross_platform_flipped,omitempty"`
}

func (s sCase) query() string {
	q, err := strconv.Unquote(s.Query)
	if err != nil {
		return s.Query
	}
	return q
}

func effLimit(l, def int) int {
	if l > 0 {
		return l
	}
	return def
}

type c01Env struct {
	db  *database.Database
	cdb *database.CachedDatabase
	mdb *database.MonitoredDatabase
	sr  *recovery.SearchRecovery
}

func newC01Env(db *database.Database) *c01Env {
	return &c01Env{db: db, cdb: database.NewCachedDatabase(db), mdb: database.NewMonitoredDatabase(db), sr: recovery.NewSearchRecovery()}
}

// c01Entry runs one entry point and returns the answer with the bound in force.
func (e *c01Env) run(entry, q string, o Opts) (items []resItem, bound int) {
	switch entry {
	case "SearchUniversal":
		return uItems(e.db, e.db.SearchUniversal(q, o)), effLimit(o.Limit, 10)
	case "Search":
		return uItems(e.db, e.db.Search(q, o.Limit)), effLimit(o.Limit, 10)
	case "SearchWithPipelineOptions":
		return uItems(e.db, e.db.SearchWithPipelineOptions(q, o)), effLimit(o.Limit, constants.DefaultSearchLimit)
	case "cached-miss":
		e.cdb.InvalidateCache()
		return uItems(e.db, e.cdb.SearchWithOptionsAndCache(q, o)), effLimit(o.Limit, 10)
	case "cached-hit":
		e.cdb.InvalidateCache()
		e.cdb.SearchWithOptionsAndCache(q, o)
		return uItems(e.db, e.cdb.SearchWithOptionsAndCache(q, o)), effLimit(o.Limit, 10)
	case "monitored":
		e.mdb.InvalidateCache()
		e.mdb.SearchWithOptionsAndMonitoring(q, o)
		return uItems(e.db, e.mdb.SearchWithOptionsAndMonitoring(q, o)), effLimit(o.Limit, 10)
	case "recovery":
		rs, _ := e.sr.RecoverFromSearchFailure(q, nil, e.db)
		return uItems(e.db, rs), -1
	}
	return nil, -1
}

type c01Path struct {
	nlp, fuzzy bool
	thr        int
}

var c01Paths = []c01Path{{false, false, 0}, {true, false, 0}, {false, true, 0}, {false, true, -30}, {true, true, 0}, {true, true, -30}}

func c01Extras(i int, o *Opts) string {
	switch i {
	case 0:
		return "default"
	case 1:
		o.PipelineOnly = true
		return "pipeline-only"
	case 2:
		o.PipelineBoost = 2
		return "pipeline-boost"
	case 3:
		o.AllPlatforms = true
		return "all-platforms"
	case 4:
		o.ContextBoosts = map[string]float64{"git": 2}
		return "ctx1"
	case 5:
		o.ContextBoosts = map[string]float64{"files": 1.3, "qzx": 3}
		return "ctx2"
	default:
		o.PipelineOnly, o.PipelineBoost, o.AllPlatforms = true, 2, true
		o.ContextBoosts = map[string]float64{"files": 1.3, "qzx": 3, "git": 2}
		return "all-on"
	}
}

func c01Limits(n int) []int {
	// 1000 first: its answer length tells whether smaller limits truncate
	seen := map[int]bool{}
	var out []int
	for _, l := range []int{1000, -1, 0, 1, 2, 3, n, n + 1} {
		if !seen[l] {
			seen[l] = true
			out = append(out, l)
		}
	}
	return out
}

func c01Eval(e *c01Env, cs sCase) (*lib.Violation, string) {
	v, obs, _ := c01EvalItems(e, cs)
	return v, obs
}

func c01EvalItems(e *c01Env, cs sCase) (*lib.Violation, string, []resItem) {
	var items []resItem
	var bound int
	var pv any
	func() {
		defer func() {
			if r := recover(); r != nil {
				pv = r
			}
		}()
		items, bound = e.run(cs.Entry, cs.query(), cs.Opts)
	}()
	if pv != nil {
		return &lib.Violation{Key: "panic:" + cs.Entry, What: fmt.Sprintf("%s panicked: %v", cs.Entry, pv), Case: cs}, "panic", nil
	}
	if bad := uWellFormed(items, bound); bad != "" {
		key := "wellformed:" + cs.Entry
		return &lib.Violation{Key: key, What: fmt.Sprintf("%s on db %s query %s: %s", cs.Entry, cs.DB, cs.Query, bad), Case: cs, Observed: items,
			GoTest: fmt.Sprintf("db := load(pool%v); rs := db.%s(%s, %s)", cs.DB.Pool, cs.Entry, cs.Query, uOptsString(cs.Opts))}, uDigest(items), items
	}
	return nil, uDigest(items), items
}

func c01Queries(thorough bool) []string {
	qs := append([]string{}, uSpecialQueries...)
	qs = append(qs, uQueries(uWords, 1)...)
	two := uQueries(uWords, 2)
	if thorough {
		qs = append(qs, two...)
		// three-word queries over the first 8 words
		qs = append(qs, uQueries(uWords[:8], 3)[8+64:]...)
	} else {
		for i, q := range two {
			if i%7 == 0 {
				qs = append(qs, q)
			}
		}
	}
	return qs
}

func c01DBs(thorough bool) []dbSpec {
	specs := []dbSpec{{Special: "empty"}, {Special: "identical12"}, {Special: "forty"}}
	k := 2
	if thorough {
		k = 3
	}
	for _, s := range uSubsets(uPoolCore, k) {
		specs = append(specs, dbSpec{Pool: s})
	}
	return specs
}

func c01Run(c *lib.Ctx) {
	qsQuick := c01Queries(false)
	var qsExtra []string // thorough only: the remaining 2-word queries and the 3-word ones, on databases of <=2 entries
	if c.Thorough() {
		inQuick := map[string]bool{}
		for _, q := range qsQuick {
			inQuick[q] = true
		}
		for _, q := range c01Queries(true) {
			if !inQuick[q] {
				qsExtra = append(qsExtra, q)
			}
		}
	}
	var caseIdx int64
	selfCheck := 0
	for di, spec := range c01DBs(c.Thorough()) {
		if !c.Mine(int64(di)) {
			continue
		}
		if c.Expired() {
			return
		}
		db := spec.build(c)
		env := newC01Env(db)
		n := len(db.Commands)
		qs := qsQuick
		if len(spec.Pool) <= 2 {
			qs = append(append([]string{}, qsQuick...), qsExtra...)
		}
		for _, q := range qs {
			qq := strconv.Quote(q)
			for ex := 0; ex < 7; ex++ {
				for _, p := range c01Paths {
					full := -1
					offEmpty := false
					for _, lim := range c01Limits(n) {
						o := Opts{Limit: lim, UseNLP: p.nlp, UseFuzzy: p.fuzzy, FuzzyThreshold: p.thr}
						exName := c01Extras(ex, &o)
						entries := []string{"SearchUniversal", "cached-hit"}
						if !p.nlp && !p.fuzzy {
							entries = append(entries, "SearchWithPipelineOptions")
							if ex == 0 {
								entries = append(entries, "Search", "monitored", "cached-miss")
							}
						}
						for _, en := range entries {
							cs := sCase{DB: spec, Query: qq, Opts: o, Entry: en}
							v, obs, items := c01EvalItems(env, cs)
							c.Rep.Evaluations++
							caseIdx++
							if selfCheck < 64 {
								selfCheck++
								if _, obs2 := c01Eval(env, cs); obs2 != obs {
									c.Fail("harness nondeterminism on %+v", cs)
								}
							}
							if v != nil {
								c.Violate(*v)
							}
							nres := 0
							if obs != "" && obs != "panic" {
								nres = 1
								c.Rep.Nontrivial++
							}
							if en == "SearchUniversal" {
								if lim == 1000 {
									full = len(items)
									if !p.fuzzy {
										offEmpty = full == 0
									}
								} else if full > effLimit(lim, 10) {
									c.Count("truncating_cases:"+pathName(p), 1)
								}
								if nres > 0 {
									c.Count("answered:"+pathName(p)+":"+exName, 1)
								}
								if lim == 1000 && len(items) == 0 && ex == 0 && !p.nlp && !p.fuzzy {
									// CLI tail: recovery searches when the engine found nothing
									rc := sCase{DB: spec, Query: qq, Opts: o, Entry: "recovery"}
									rv, robs, ri := c01EvalItems(env, rc)
									c.Rep.Evaluations++
									if rv != nil {
										c.Violate(*rv)
									}
									if robs != "" && robs != "panic" {
										c.Count(fmt.Sprintf("recovery_answered:score=%.1f", ri[0].Score), 1)
										c.Rep.Nontrivial++
									}
								}
							}
							if en == "cached-hit" && nres > 0 {
								c.Count("cached_hit_answered", 1)
							}
							if caseIdx%50000 == 3 {
								c.Sample(map[string]any{"case": cs, "observed": obs})
							}
						}
					}
					_ = offEmpty
				}
			}
		}
	}
	// fuzzy-path accounting: a dedicated pass on a few databases (cheap)
	c01CacheChains(c)
	c01TwoWrappers(c)
	c01FuzzyAccounting(c)
	if c.Shard < 8 {
		c01Shipped(c)
	}
	c01Processes(c)
}

// c01CacheChains: requests that differ only in the limit, issued one after the
// other through ONE caching wrapper (no invalidation in between), for every
// ordered pair of limits: the second answer must respect its own limit.
func c01CacheChains(c *lib.Ctx) {
	specs := []dbSpec{{Special: "identical12"}, {Special: "forty"}}
	limits := []int{1000, 25, 12, 3, 1, 0, -1}
	i := 0
	for _, spec := range specs {
		for _, q := range []string{"git files", "compress", "files", "push"} {
			for _, p := range []c01Path{{false, false, 0}, {true, false, 0}, {true, true, -30}} {
				i++
				if !c.Mine(int64(i)) {
					continue
				}
				db := spec.build(c)
				for _, l1 := range limits {
					for _, l2 := range limits {
						for _, entry := range []string{"cached", "monitored"} {
							cdb := database.NewMonitoredDatabase(db)
							run := func(l int) []resItem {
								o := Opts{Limit: l, UseNLP: p.nlp, UseFuzzy: p.fuzzy, FuzzyThreshold: p.thr}
								if entry == "monitored" {
									return uItems(db, cdb.SearchWithOptionsAndMonitoring(q, o))
								}
								return uItems(db, cdb.SearchWithOptionsAndCache(q, o))
							}
							run(l1)
							items := run(l2)
							c.Rep.Evaluations += 2
							c.Count("cache_chain_cases", 1)
							if bad := uWellFormed(items, effLimit(l2, 10)); bad != "" {
								c.Violate(lib.Violation{Key: "cache-chain:" + entry, What: fmt.Sprintf("%s wrapper, db %s, query %q: after a request with limit %d, the request with limit %d got: %s", entry, spec, q, l1, l2, bad),
									Case: sCase{DB: spec, Query: strconv.Quote(q), Opts: Opts{Limit: l2, UseNLP: p.nlp, UseFuzzy: p.fuzzy, FuzzyThreshold: p.thr}, Entry: fmt.Sprintf("chain:%s:%d", entry, l1)}, Observed: items})
							}
						}
					}
				}
			}
		}
	}
}

// c01TwoWrappers: two wrappers in one process around different databases are asked the same thing one after
// the other; each answer must be made of entries of the database its own wrapper searches.
func c01TwoWrappers(c *lib.Ctx) {
	if c.Shard != 1 {
		return
	}
	specs := []dbSpec{{Special: "identical12"}, {Special: "forty"}, {Pool: []int{0, 4}}, {Pool: []int{5, 6, 8}}}
	for xi, sx := range specs {
		for yi, sy := range specs {
			if xi == yi {
				continue
			}
			dx, dy := sx.build(c), sy.build(c)
			for _, q := range []string{"git files", "compress", "files", "list files"} {
				for _, p := range []c01Path{{false, false, 0}, {true, false, 0}, {true, true, -30}} {
					for _, entry := range []string{"cached", "monitored", "cached-then-monitored"} {
						o := Opts{Limit: 5, UseNLP: p.nlp, UseFuzzy: p.fuzzy, FuzzyThreshold: p.thr}
						var items []resItem
						switch entry {
						case "cached":
							database.NewCachedDatabase(dx).SearchWithOptionsAndCache(q, o)
							items = uItems(dy, database.NewCachedDatabase(dy).SearchWithOptionsAndCache(q, o))
						case "monitored":
							database.NewMonitoredDatabase(dx).SearchWithOptionsAndMonitoring(q, o)
							items = uItems(dy, database.NewMonitoredDatabase(dy).SearchWithOptionsAndMonitoring(q, o))
						default:
							database.NewCachedDatabase(dx).SearchWithOptionsAndCache(q, o)
							items = uItems(dy, database.NewMonitoredDatabase(dy).SearchWithOptionsAndMonitoring(q, o))
						}
						c.Rep.Evaluations += 2
						c.Count("two_wrapper_cases", 1)
						bad := uWellFormed(items, 5)
						if bad == "" {
							if want := uItems(dy, dy.SearchUniversal(q, o)); uDigest(want) != uDigest(items) {
								bad = "not the answer of an uncached search of its own database"
							}
						}
						if bad != "" {
							c.Violate(lib.Violation{Key: "two-wrappers:" + entry, What: fmt.Sprintf("%s: a wrapper around db %s asked %q right after a wrapper around db %s was asked the same: %s", entry, sy, q, sx, bad),
								Case: sCase{DB: sy, Query: strconv.Quote(q), Opts: o, Entry: fmt.Sprintf("two:%s:%d", entry, xi)}, Observed: items})
						}
					}
				}
			}
		}
	}
}

func pathName(p c01Path) string {
	s := "lexical"
	if p.nlp {
		s = "nlp"
	}
	if p.fuzzy {
		s += "+fuzzy"
		if p.thr != 0 {
			s += fmt.Sprint(p.thr)
		}
	}
	return s
}

// c01FuzzyAccounting counts, for non-vacuity, the cases in which the typo
// fallback is what answered (fuzzy off empty, fuzzy on non-empty), separately
// for "no terms" and "no scored document" entries into the fallback.
func c01FuzzyAccounting(c *lib.Ctx) {
	if c.Shard != 0 {
		return
	}
	for _, spec := range []dbSpec{{Pool: []int{4}}, {Pool: []int{4, 5, 21}}, {Special: "forty"}} {
		db := spec.build(c)
		for _, q := range []string{"comprss", "c", "cmprs fls", "zz", "..."} {
			for _, lim := range []int{1, 2, 1000} {
				off := db.SearchUniversal(q, Opts{Limit: lim})
				on := db.SearchUniversal(q, Opts{Limit: lim, UseFuzzy: true})
				if len(off) == 0 && len(on) > 0 {
					if len(refTokens(q)) == 0 {
						c.Count("fuzzy_answered:no-terms", 1)
					} else {
						c.Count("fuzzy_answered:no-scored-document", 1)
					}
					if len(on) == lim {
						c.Count("fuzzy_answered:at-limit", 1)
					}
				}
			}
		}
	}
}

var c01ShippedQueries = []string{
	"compress files", "disk usage", "git commit", "list files", "find files by name", "comprss fles", "docker ps", "network interface",
	"kill process", "install package", "create directory", "show file contents without opening", "x", "zzzzqq", "tar", "GIT",
	"download file from url", "change permissions", "search text in files", "extract archive", "ip", "manage ip windows", "copy", "mv",
	"how do i compress a folder", "the", "qm move disk", "python virtual environment", "ssh", "grep", "list", "disk", "cpu", "memory",
	"rename", "delete", "move files", "unzip", "ping", "curl",
}

func c01Shipped(c *lib.Ctx) {
	spec := dbSpec{Special: "shipped"}
	var env *c01Env
	i := 0
	for _, q := range c01ShippedQueries {
		for _, lim := range []int{0, 1, 5, 100} {
			for _, p := range []c01Path{{false, false, 0}, {true, false, 0}, {true, true, -30}, {false, true, 0}} {
				i++
				if i%8 != c.Shard {
					continue
				}
				if c.Expired() {
					return
				}
				if env == nil {
					env = newC01Env(spec.build(c))
				}
				for _, en := range []string{"SearchUniversal", "cached-hit", "SearchWithPipelineOptions"} {
					if en == "SearchWithPipelineOptions" && (p.nlp || p.fuzzy) {
						continue
					}
					cs := sCase{DB: spec, Query: strconv.Quote(q), Opts: Opts{Limit: lim, UseNLP: p.nlp, UseFuzzy: p.fuzzy, FuzzyThreshold: p.thr}, Entry: en}
					v, obs := c01Eval(env, cs)
					c.Rep.Evaluations++
					c.Count("shipped_cases", 1)
					if obs != "" {
						c.Rep.Nontrivial++
					}
					if v != nil {
						c.Violate(*v)
					}
				}
			}
		}
	}
}

func c01Replay(c *lib.Ctx, raw json.RawMessage) []lib.Violation {
	var cs sCase
	if json.Unmarshal(raw, &cs) != nil {
		return nil
	}
	if strings.HasPrefix(cs.Entry, "two:") {
		// re-run the whole two-wrapper part (cheap) and keep what it reports for this entry kind
		cc := *c
		cc.Rep = &lib.Report{Counters: map[string]int64{}}
		cc.Shard = 1
		c01TwoWrappers(&cc)
		return cc.Rep.Violations
	}
	if strings.HasPrefix(cs.Entry, "chain:") {
		parts := strings.Split(cs.Entry, ":")
		l1, _ := strconv.Atoi(parts[2])
		db := cs.DB.build(c)
		cdb := database.NewMonitoredDatabase(db)
		o1 := cs.Opts
		o1.Limit = l1
		var items []resItem
		if parts[1] == "monitored" {
			cdb.SearchWithOptionsAndMonitoring(cs.query(), o1)
			items = uItems(db, cdb.SearchWithOptionsAndMonitoring(cs.query(), cs.Opts))
		} else {
			cdb.SearchWithOptionsAndCache(cs.query(), o1)
			items = uItems(db, cdb.SearchWithOptionsAndCache(cs.query(), cs.Opts))
		}
		if bad := uWellFormed(items, effLimit(cs.Opts.Limit, 10)); bad != "" {
			return []lib.Violation{{Key: "cache-chain:" + parts[1], What: bad, Case: cs, Observed: items}}
		}
		return nil
	}
	env := newC01Env(cs.DB.build(c))
	if v, _ := c01Eval(env, cs); v != nil {
		return []lib.Violation{*v}
	}
	return nil
}

func init() {
	lib.Register(&lib.Check{
		ID: "C01", Level: "model_checking",
		Rule:      "full product of: databases = {empty, 12 identical entries, 40 entries} + all subsets of <=2 (quick) / <=3 (thorough) entries of the 31-entry pool; queries = 15 specials + all 1-word + every 7th 2-word sequence over the 22-word alphabet (thorough: on databases of <=2 entries also all other 2-word sequences and 3-word sequences over 8 words); limits {-1,0,1,2,3,N,N+1,1000}; paths {lexical, NLP, fuzzy thr 0/-30, NLP+fuzzy thr 0/-30}; extras {default, pipeline-only, pipeline-boost, all-platforms, two context-boost maps, all-on}; entry points SearchUniversal and cached (hit) always, SearchWithPipelineOptions on the lexical path, Search / monitored / cached (miss) on defaults, recovery searches whenever the engine answer is empty; every ordered pair of limits {1000,25,12,3,1,0,-1} issued back to back through one caching / monitoring wrapper on the 12- and 40-entry databases; shipped database on 40 queries x 4 limits x 4 paths; the real binary on 3 databases x 6 queries (recovery, typo, lexical) x 5 limits x 2 formats (printed entries <= limit in force and equal to the engine's answer). evaluations = entry-point calls checked; non-trivial = calls with a non-empty answer; plus two wrappers in one process around different databases (12 ordered pairs of 4 databases x 4 queries x 3 paths x {cached, monitored, cached-then-monitored}) asked the same thing one after the other: the second answer must consist of entries of its own database and equal its uncached answer",
		Assume:    []string{"map iteration order pinned (sorted keys) by build overlay", "default limit: 10 for SearchUniversal-based entry points, constants.DefaultSearchLimit for SearchWithPipelineOptions", "the CLI's truncation of recovery results is checked at process level in C17"},
		QuickSecs: 300, ThorSecs: 3000,
		Run: c01Run, Replay: c01Replay,
		Finish: func(m *lib.Report, tier string) string {
			need := []string{"answered:lexical:default", "answered:nlp:default", "answered:lexical+fuzzy:default", "answered:lexical:pipeline-only", "answered:lexical:all-on",
				"truncating_cases:lexical", "truncating_cases:nlp", "cached_hit_answered", "fuzzy_answered:no-terms", "fuzzy_answered:no-scored-document", "fuzzy_answered:at-limit",
				"recovery_answered:score=1.0", "recovery_answered:score=0.8", "shipped_cases", "cli_runs", "cli_recovery_answered", "cache_chain_cases"}
			for _, k := range need {
				if m.Counters[k] == 0 && m.Exhaustive {
					return "vacuous: counter " + k + " is zero"
				}
			}
			return ""
		},
	})
}

package checks

import (
	"bytes"
	"context"
	"os"
	"os/exec"
	"path/filepath"
	"syscall"
	"time"
)

// Engine E6: the real `wtf` binary in an isolated environment.

type cliResult struct {
	Out, Err string
	Exit     int
	TimedOut bool
	Signal   string
}

// cliEnv is an isolated home: config, notebook and history live under it; the
// working directory is an empty directory so the context analyzer sees
// "generic".
type cliEnv struct {
	Home string
	Cwd  string
}

func newCLIEnv(root string) *cliEnv {
	e := &cliEnv{Home: filepath.Join(root, "home"), Cwd: filepath.Join(root, "cwd")}
	os.RemoveAll(root)
	os.MkdirAll(e.Home, 0o755)
	os.MkdirAll(e.Cwd, 0o755)
	return e
}

func (e *cliEnv) NotebookPath() string {
	return filepath.Join(e.Home, ".config", "cmd-finder", "personal.yml")
}

func (e *cliEnv) HistoryPath() string {
	return filepath.Join(e.Home, ".config", "wtf", "search_history.json")
}

// run executes bin with args. extraEnv entries are "K=V".
func (e *cliEnv) run(bin string, extraEnv []string, args ...string) cliResult {
	return e.runWith(bin, extraEnv, nil, args...)
}

func (e *cliEnv) runWith(bin string, extraEnv []string, stdin []byte, args ...string) cliResult {
	ctx, cancel := context.WithTimeout(context.Background(), 30*time.Second)
	defer cancel()
	cmd := exec.CommandContext(ctx, bin, args...)
	cmd.Dir = e.Cwd
	cmd.Env = append([]string{
		"HOME=" + e.Home, "XDG_CONFIG_HOME=" + filepath.Join(e.Home, ".config"), "PATH=/usr/bin:/bin", "TERM=dumb", "LANG=C.UTF-8",
	}, extraEnv...)
	var so, se bytes.Buffer
	cmd.Stdout, cmd.Stderr = &so, &se
	if stdin != nil {
		cmd.Stdin = bytes.NewReader(stdin)
	}
	err := cmd.Run()
	r := cliResult{Out: so.String(), Err: se.String()}
	if ctx.Err() == context.DeadlineExceeded {
		r.TimedOut = true
	}
	if err != nil {
		if ee, ok := err.(*exec.ExitError); ok {
			r.Exit = ee.ExitCode()
			if ws, ok := ee.Sys().(syscall.WaitStatus); ok && ws.Signaled() {
				r.Signal = ws.Signal().String()
			}
		} else {
			r.Exit = -1
			r.Err += "\nexec: " + err.Error()
		}
	}
	return r
}

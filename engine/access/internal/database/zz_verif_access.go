package database

import "github.com/Vedant9500/WTF/internal/embedding"

// Overlay-added accessors for the verification harness (never committed to the
// repository; injected with `go build -overlay` by vinstr).

// VerifBM25 is the BM25F parameter set in force.
type VerifBM25 struct {
	K1                        float64
	BCmd, BDesc, BKeys, BTags float64
	WCmd, WDesc, WKeys, WTags float64
	MinIDF                    float64
}

// VerifParams returns the BM25F parameters the index of db uses.
func VerifParams(db *Database) VerifBM25 {
	p := defaultParams()
	if db != nil && db.uIndex != nil {
		p = db.uIndex.params
	}
	return VerifBM25{K1: p.k1,
		BCmd: p.b.cmd, BDesc: p.b.desc, BKeys: p.b.keys, BTags: p.b.tags,
		WCmd: p.w.cmd, WDesc: p.w.desc, WKeys: p.w.keys, WTags: p.w.tags,
		MinIDF: p.minIDF}
}

// VerifSetEmbeddingIndex attaches an in-memory embedding index.
func VerifSetEmbeddingIndex(db *Database, idx *embedding.Index) { db.embeddingIndex = idx }

// VerifHasIndex reports whether the inverted index / re-ranker are built.
func VerifHasIndex(db *Database) (uindex, tfidf bool) {
	return db.uIndex != nil, db.tfidf != nil
}

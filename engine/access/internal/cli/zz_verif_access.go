package cli

import "github.com/Vedant9500/WTF/internal/database"

// VerifSaveToPersonalDatabase exposes the notebook write path (C08, C09).
func VerifSaveToPersonalDatabase(path string, entry database.Command) error {
	return saveToPersonalDatabase(path, entry)
}

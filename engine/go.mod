module github.com/Vedant9500/WTF/zzverif

go 1.25.5

require (
	github.com/Vedant9500/WTF v0.0.0
	github.com/anishathalye/porcupine v1.3.0
	github.com/sahilm/fuzzy v0.1.1
	gopkg.in/yaml.v3 v3.0.1
)

require (
	github.com/spf13/cobra v1.9.1 // indirect
	github.com/spf13/pflag v1.0.6 // indirect
)

replace github.com/Vedant9500/WTF => /repo
